#!/bin/bash
# tools/cross_matrix.sh: run every quick check against every seeded change (development aid, long).
cd "$(dirname "$0")/.."
ALL="C01,C02,C03,C04,C05,C06,C07,C08,C09,C10,C11,C12,C13,C14,C15,C16,C17,C18,C19,C20"
for d in seeded/*/; do
  m=$(basename $d)
  echo "== $m"
  VF_STALL_S=30 tools/mutant_audit seeded/$m --no-tests --checks $ALL
done
