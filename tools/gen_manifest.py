#!/usr/bin/env python3
"""Regenerate MANIFEST.json from bin/registry.py (claimed checks) and properties.jsonl
(everything not claimed goes to not_applicable with the reason given in registry.NOT_CLAIMED
or "check not built yet")."""
import json, os, sys, subprocess
VERIF = os.path.dirname(os.path.dirname(os.path.abspath(__file__)))
sys.path.insert(0, os.path.join(VERIF, "bin"))
import registry  # noqa

props = [json.loads(l) for l in open(os.path.join(VERIF, "properties.jsonl")) if l.strip()]
hook_commits = getattr(registry, "HOOK_COMMITS", [])
checks, na = [], []
for p in props:
    pid = p["id"]
    if pid in registry.PROPS:
        r = registry.PROPS[pid]
        c = {
            "property_id": pid,
            "quick_cmd": "bin/check %s --tier quick" % pid,
            "thorough_cmd": "bin/check %s --tier thorough" % pid,
            "evidence_file": "evidence/%s.json" % pid,
            "replay_cmd_template": "bin/check %s --replay {path}" % pid,
            "engine": r.get("engine", "vf-explorer"),
            "level_claimed": {"category": r.get("level", "model_checking"), "text": r["claim"], "design_ref": r.get("design_ref", "DESIGN.md §4 " + pid)},
            "level_note": r.get("note", "; ".join(r.get("assumptions", []))),
            "technique": r.get("technique", "bounded exhaustive explicit-state exploration of the real code against a reference model"),
        }
        checks.append(c)
    else:
        na.append({"property_id": pid, "reason": getattr(registry, "NOT_CLAIMED", {}).get(pid, "check not built yet (work in progress); the design in DESIGN.md §4 applies model checking to it")})
m = {
    "version": 1,
    "setup_cmd": "true",
    "hooks": {
        "guard": "OPENFEC_VERIF",
        "enable": "bin/check compiles every file under /repo/src itself with -DOPENFEC_VERIF (plus -DOPENFEC_VERIF_SPARSE_BLOCK=4 for C17) into /verif/build; /repo is never written",
        "baseline_off_cmd": "cmake --build /repo/_build && ctest --test-dir /repo/_build -j8 --timeout 900",
        "source_commits": hook_commits,
        "add_only": True,
    },
    "engines": [
        {"name": "vf-explorer", "path": "engine/", "serves_properties": sorted(registry.PROPS.keys()),
         "kind_free_text": "hand-written explicit-state / bounded-exhaustive explorer in C driving the real library (worker pool, crash containment, allocation tracker, reference models), driven by bin/check"},
    ],
    "checks": checks,
    "notes": "All checks rebuild the library from VERIF_REPO (default /repo) on every run (content-hashed object cache under /verif/build). See DESIGN.md.",
    "not_applicable": na,
}
with open(os.path.join(VERIF, "MANIFEST.json"), "w") as f:
    json.dump(m, f, indent=1)
print("claimed:", [c["property_id"] for c in checks])
print("not claimed:", [n["property_id"] for n in na])
try:
    import jsonschema
    jsonschema.validate(m, json.load(open("/root/.vp/MANIFEST.schema.json")))
    print("MANIFEST.json validates")
except ImportError:
    r = subprocess.run(["python3-vt", "-c", "import json,jsonschema;jsonschema.validate(json.load(open('%s/MANIFEST.json')),json.load(open('/root/.vp/MANIFEST.schema.json')));print('MANIFEST.json validates')" % VERIF])
