/* h_enc.c — encoder-side and code-construction checks (C05, C06, C15, generator part of C02).
 *
 * --mode rs     for every (codec, m, k, n) of the grid: encoder session on the identity(+dense) payload,
 *               every repair ESI, two slot modes (application buffer / NULL slot): repair j must equal
 *               row j of the reference systematic Vandermonde generator (nibble-wise for m=4);
 *               codec 1 and codec 2/m=8 byte-identical; rows independent of n; enc_matrix of an encoder
 *               and of a decoder session (codec 2) equal the reference entry by entry; source buffers
 *               unchanged; NULL slot replaced by a library block; release leaves nothing behind.
 * --mode ldpc   for every (k, r, N1, seed) of the grid and every pollution prefix: H obtained (i) by walking
 *               pchk_matrix of an encoder session, (ii) of a decoder session, (iii) behaviourally from
 *               of_build_repair_symbol on unit vectors, all equal to the RFC 5170 reference; every check
 *               equation sums to zero over the produced codeword; IS_LAST_SYMBOL_NULL truthful (C15).
 */
#include <sys/mman.h>
#include "vf.h"
#include "ref.h"
#include "lib_common/of_openfec_api.h"
#include "lib_stable/reed-solomon_gf_2_8/of_reed-solomon_gf_2_8_includes.h"
#include "lib_stable/reed-solomon_gf_2_m/of_reed-solomon_gf_2_m_includes.h"
#include "lib_stable/ldpc_staircase/of_ldpc_includes.h"
#include "lib_stable/2d_parity_matrix/of_2d_parity_includes.h"
#include <unistd.h>

extern UINT64 of_seed;
static const char *PROP;
static int st_states, st_trans, st_exec, st_dn, st_points, st_nullclaims, st_prefixes;
static char g_case[VF_SLOT_LEN];

static void viol (const char *prop, const char *sig) { vf_viol (prop, sig, "%s", g_case); }

int rand (void) { static int c; return c++; }

static const int LONGLENS[] = {100, 127, 128, 129, 255, 256, 257, 300, 511, 512, 513, 600, 1000, 1023, 1025, 1500, 2047, 2048, 2049, 3000, 4095, 4096, 4097, 8191, 8192, 8193, 10000, 12288, 16384, 32768, 65535, 65536, 65537, 70000};
#define NLONGLENS ((int) (sizeof LONGLENS / sizeof LONGLENS[0]))
typedef struct { int codec, m, k, r, n, N1, seed, len, prefix, slotmode; } pt_t;
static pt_t *PT; static long NPT, CAPPT;
static void add_pt (int codec, int m, int k, int r, int N1, int seed, int len, int prefix)
{
	pt_t p = {codec, m, k, r, k + r, N1, seed, len, prefix, 0};
	(void) 0;
	if (NPT == CAPPT) { CAPPT = CAPPT ? CAPPT * 2 : 1024; PT = realloc (PT, sizeof (pt_t) * (size_t) CAPPT); }
	PT[NPT++] = p;
}

/* ------------------------------------------------------------------ sessions */
static of_session_t *open_ses (int codec, int m, int k, int r, int N1, int seed, int len, int type, int *rejected)
{
	of_session_t *s = NULL;
	of_status_t st;
	of_codec_id_t id = codec == 1 ? OF_CODEC_REED_SOLOMON_GF_2_8_STABLE : codec == 2 ? OF_CODEC_REED_SOLOMON_GF_2_M_STABLE : OF_CODEC_LDPC_STAIRCASE_STABLE;
	if (rejected) *rejected = 0;
	if (of_create_codec_instance (&s, id, (of_codec_type_t) type, 0) != OF_STATUS_OK || !s) return NULL;
	if (codec == 1) { of_rs_parameters_t p; memset (&p, 0, sizeof p); p.nb_source_symbols = (UINT32) k; p.nb_repair_symbols = (UINT32) r; p.encoding_symbol_length = (UINT32) len; st = of_set_fec_parameters (s, (of_parameters_t *) &p); }
	else if (codec == 2) { of_rs_2_m_parameters_t p; memset (&p, 0, sizeof p); p.nb_source_symbols = (UINT32) k; p.nb_repair_symbols = (UINT32) r; p.encoding_symbol_length = (UINT32) len; p.m = (UINT16) m; st = of_set_fec_parameters (s, (of_parameters_t *) &p); }
	else { of_ldpc_parameters_t p; memset (&p, 0, sizeof p); p.nb_source_symbols = (UINT32) k; p.nb_repair_symbols = (UINT32) r; p.encoding_symbol_length = (UINT32) len; p.prng_seed = seed; p.N1 = (UINT8) N1; st = of_set_fec_parameters (s, (of_parameters_t *) &p); }
	if (st != OF_STATUS_OK) { if (rejected) *rejected = 1; of_release_codec_instance (s); return NULL; }
	return s;
}

/* payload: identity part (position i of source i is 1) + dense part; if len is too short for the identity
 * part the whole symbol is dense */
static int idlen (const pt_t *p) { return (p->codec == 2 && p->m == 4) ? (p->k + 1) / 2 : p->k; }
static void fill_source (const pt_t *p, int i, unsigned char *b)
{
	int j, idl = idlen (p);
	memset (b, 0, (size_t) p->len);
	if (idl > p->len) idl = 0;
	if (idl) { if (p->codec == 2 && p->m == 4) b[i / 2] |= (i & 1) ? 0x01 : 0x10; else b[i] = 1; }
	for (j = idl; j < p->len; j++) b[j] = (unsigned char) (vf_mix64 ((uint64_t) i * 131 + (uint64_t) j * 7919 + 23) >> 11);
}

/* pollution prefixes (C05: "after any history of other sessions") */
#define NPREFIX 6
static void run_prefix (int which)
{
	of_session_t *s;
	int rej;
	switch (which) {
	case 0: break;
	case 1: s = open_ses (3, 0, 7, 5, 3, 424242, 8, OF_ENCODER, &rej); if (s) of_release_codec_instance (s); break;
	case 2: {
		void *tab[5]; unsigned char b[5][8]; int i;
		s = open_ses (1, 8, 3, 2, 0, 0, 8, OF_ENCODER, &rej);
		for (i = 0; i < 5; i++) { memset (b[i], i + 1, 8); tab[i] = b[i]; }
		if (s) { of_build_repair_symbol (s, tab, 3); of_release_codec_instance (s); }
		break; }
	case 3: s = open_ses (3, 0, 5, 4, 9, 77, 8, OF_DECODER, &rej); if (s) of_release_codec_instance (s); break;	/* N1 > r: rejected after seeding */
	case 4: { int i; for (i = 0; i < 3; i++) { s = open_ses (3, 0, 4 + i, 4, 3 + (i & 1), 1000 + i, 4, OF_DECODER, &rej); if (s) of_release_codec_instance (s); } break; }
	case 5: {	/* a decoder that runs ML decoding (consumes rand()) and leaves of_seed somewhere else */
		unsigned char sym[9][4]; int i;
		s = open_ses (3, 0, 4, 5, 3, 99, 4, OF_DECODER, &rej);
		memset (sym, 0, sizeof sym);
		if (s) { for (i = 4; i < 8; i++) of_decode_with_new_symbol (s, sym[i], (UINT32) i); of_finish_decoding (s); { void *t[4] = {0}; int j; of_get_source_symbols_tab (s, t); of_release_codec_instance (s); for (j = 0; j < 4; j++) if (t[j]) free (t[j]); } }
		of_seed = 5; of_rfc5170_rand (10);
		break; }
	}
}

/* ------------------------------------------------------------------ RS point */
static unsigned char *Gcache[3]; static int Gk[3] = {-1, -1, -1}, Gn[3];	/* per field: reference generator for (k, nmax) */
static const unsigned char *ref_G (int m, int k, int n)
{
	int slot = m == 4 ? 0 : 1, nmax = m == 4 ? 15 : 255;
	(void) n;
	if (Gk[slot] != k) { free (Gcache[slot]); Gcache[slot] = malloc ((size_t) nmax * k); rsr_generator (m, k, nmax, Gcache[slot]); Gk[slot] = k; Gn[slot] = nmax; }
	return Gcache[slot];
}

static char g_seq_tag[96];
static void rs_point (const pt_t *p);
/* sequences of Reed-Solomon encoder sessions that share (k, n-k) but not the field or the codec, back to back in one process
 * (anything a session keeps for the next one - a cached generator, a table - is keyed at least by what differs here) */
static void rsseq_point (const pt_t *q)
{
	static const int ORD[4][5][2] = {	/* (field: 4 = codec 2 m=4, 8 = codec 2 m=8, 1 = codec 1; r offset) */
		{{4, 0}, {8, 0}, {1, 0}, {8, 0}, {4, 0}}, {{8, 0}, {4, 0}, {1, 0}, {4, 0}, {8, 0}}, {{1, 0}, {4, 0}, {8, 0}, {1, 0}, {0, 0}}, {{4, 0}, {8, -1}, {1, -1}, {8, 0}, {4, -1}}};
	int o = q->prefix, i;
	for (i = 0; i < 5; i++) {
		pt_t p = *q; int f = ORD[o][i][0], r = q->r + ORD[o][i][1];
		if (!f || r < 1) continue;
		p.codec = f == 1 ? 1 : 2; p.m = f == 1 ? 8 : f; p.r = r; p.n = p.k + r; p.prefix = 0; p.slotmode = 0;
		snprintf (g_seq_tag, sizeof g_seq_tag, "rsseq k=%d r=%d order=%d step=%d", q->k, q->r, o, i);
		rs_point (&p);
	}
	g_seq_tag[0] = 0;
}

static void rs_point (const pt_t *p)
{
	int k = p->k, n = p->n, len = p->len, m = p->codec == 1 ? 8 : p->m, i, j, mode;
	unsigned char **src = malloc (sizeof (void *) * (size_t) k), **pristine = malloc (sizeof (void *) * (size_t) k);
	unsigned char *want = malloc ((size_t) len + 1);
	unsigned char **firstout = calloc ((size_t) n, sizeof (void *));
	const unsigned char *G;
	char sig[200];
	const char *cn = p->codec == 1 ? "rs28" : (p->m == 4 ? "rs2m4" : "rs2m8");
	if (g_seq_tag[0]) snprintf (g_case, sizeof g_case, "%s (at codec=%d m=%d k=%d n=%d)", g_seq_tag, p->codec, p->m, k, n);
	else snprintf (g_case, sizeof g_case, "rs codec=%d m=%d k=%d n=%d len=%d align=%d", p->codec, p->m, k, n, len, p->prefix & 7);
	memcpy (vf_slot (), g_case, sizeof g_case);
	G = ref_G (m, k, n);
	/* the reference generator itself must be n-independent: checked once per k by comparing a fresh (k,n) one */
	{
		unsigned char *G2 = malloc ((size_t) n * k);
		rsr_generator (m, k, n, G2);
		if (memcmp (G2, G, (size_t) n * k)) viol ("MACHINERY", "kind=reference-generator-depends-on-n");
		free (G2);
	}
	int al = p->prefix & 7;	/* for RS points the 'prefix' field carries the buffer alignment under test */
	void **srcblk = calloc ((size_t) k, sizeof (void *));
	for (i = 0; i < k; i++) { srcblk[i] = malloc ((size_t) al + (size_t) len); src[i] = (unsigned char *) srcblk[i] + al; pristine[i] = malloc ((size_t) len); fill_source (p, i, src[i]); memcpy (pristine[i], src[i], (size_t) len); }
	for (j = k; j < n; j++) firstout[j] = calloc (1, (size_t) len + 1);
	for (mode = 0; mode < 2; mode++) {
		of_session_t *s;
		int built = 0;
		void **tab = malloc (sizeof (void *) * (size_t) n);
		unsigned char **mine = calloc ((size_t) n, sizeof (void *));
		int rej = 0;
#ifdef VF_TRK
		uint64_t mark; long bad0;
#endif
		for (i = 0; i < k; i++) tab[i] = src[i];
		for (i = k; i < n; i++) { if (mode == 0) { mine[i] = malloc ((size_t) al + (size_t) len + 8); memset (mine[i], 0x5A, (size_t) al + (size_t) len + 8); tab[i] = mine[i] + al; } else tab[i] = NULL; }
#ifdef VF_TRK
		mark = vf_trk_mark (); bad0 = vf_trk_badfree_count ();
#endif
		s = open_ses (p->codec, p->m, k, n - k, 0, 0, len, OF_ENCODER, &rej);
		if (!s) { snprintf (sig, sizeof sig, "codec=%s|kind=valid-configuration-rejected", cn); viol ("C09", sig); free (tab); free (mine); continue; }
		for (j = k; j < n; j++) {
			of_status_t st = of_build_repair_symbol (s, tab, (UINT32) j);
			vf_stat_add (st_trans, 1);
			if (st != OF_STATUS_OK) { snprintf (sig, sizeof sig, "codec=%s|call=build|kind=status-%d", cn, (int) st); viol (PROP, sig); break; }
			if (!tab[j]) { snprintf (sig, sizeof sig, "codec=%s|call=build|kind=null-slot-left-null", cn); viol ("C06", sig); break; }
			if (mode == 0 && tab[j] != mine[j] + al) { snprintf (sig, sizeof sig, "codec=%s|call=build|kind=application-slot-replaced", cn); viol ("C06", sig); }
			if (mode == 0) {	/* bytes around the repair buffer must be untouched (canaries; ASan covers the end of the block) */
				int q, bad = 0;
				for (q = 0; q < al; q++) if (mine[j][q] != 0x5A) bad = 1;
				for (q = 0; q < 8; q++) if (mine[j][al + len + q] != 0x5A) bad = 1;
				if (bad) { snprintf (sig, sizeof sig, "codec=%s|call=build|kind=wrote-outside-repair-buffer|align=%d", cn, al); viol ("C07", sig); viol ("C06", sig); }
			}
#ifdef VF_TRK
			if (mode == 1 && (!vf_trk_is_live (tab[j]) || vf_trk_size (tab[j]) < (size_t) len || vf_trk_serial (tab[j]) < mark)) { snprintf (sig, sizeof sig, "codec=%s|call=build|kind=null-slot-not-a-fresh-library-block", cn); viol ("C06", sig); break; }
#endif
			rsr_encode_symbol (m, k, G + (size_t) j * k, pristine, want, (size_t) len);
			if (memcmp (tab[j], want, (size_t) len)) {
				snprintf (sig, sizeof sig, "codec=%s|call=build|kind=repair-differs-from-reference-generator|slot=%s", cn, mode ? "null" : "buffer");
				viol ("C06", sig); viol ("C02", sig);
			}
			if (mode == 0) { memcpy (firstout[j], tab[j], (size_t) len); firstout[j][len] = 1; }
			else if (firstout[j][len] && memcmp (firstout[j], tab[j], (size_t) len)) { snprintf (sig, sizeof sig, "codec=%s|call=build|kind=null-slot-value-differs-from-buffer-mode", cn); viol ("C06", sig); }
			built++;
			for (i = 0; i < k; i++) if (tab[i] != src[i] || memcmp (src[i], pristine[i], (size_t) len)) { snprintf (sig, sizeof sig, "codec=%s|call=build|kind=source-buffer-or-table-modified", cn); viol ("C06", sig); viol ("C07", sig); memcpy (src[i], pristine[i], (size_t) len); tab[i] = src[i]; }
		}
		/* structural: encoding matrix of codec 2 */
		if (p->codec == 2 && mode == 0) {
			of_rs_2_m_cb_t *cb = (of_rs_2_m_cb_t *) s;
			if (cb->enc_matrix && memcmp (cb->enc_matrix, G, (size_t) n * k)) { snprintf (sig, sizeof sig, "codec=%s|kind=enc_matrix-differs-from-reference|session=encoder", cn); viol ("C06", sig); viol ("C02", sig); }
		}
		of_release_codec_instance (s);
		for (j = k; j < n; j++) { if (mode == 1 && tab[j]) free (tab[j]); }
#ifdef VF_TRK
		{
			long live = vf_trk_live_since (mark, NULL);
			if (live) { snprintf (sig, sizeof sig, "codec=%s|kind=leak|lifecycle=encoder|slot=%s", cn, mode ? "null" : "buffer"); viol ("C08", sig); }
			if (vf_trk_badfree_count () != bad0) { snprintf (sig, sizeof sig, "codec=%s|kind=free-of-non-live-block|lifecycle=encoder", cn); viol ("C08", sig); }
			if (vf_trk_old_freed ()) { snprintf (sig, sizeof sig, "codec=%s|kind=library-freed-application-memory|lifecycle=encoder", cn); viol ("C08", sig); viol ("C07", sig); }
		}
#endif
		for (j = k; j < n; j++) free (mine[j]);
		free (tab); free (mine);
	}
	/* encoder histories on ONE session: scattered / decreasing order, a symbol built twice into the buffer that still holds
	 * its first value, a NULL slot after a buffer slot, a second increasing pass over used buffers */
	if (n - k >= 1 && len <= 4200) {
		int rej = 0, pass, q, nb = n - k;
		of_session_t *s = open_ses (p->codec, p->m, k, n - k, 0, 0, len, OF_ENCODER, &rej);
		if (s) {
			void **tab = calloc ((size_t) n, sizeof (void *));
			unsigned char **mine = calloc ((size_t) n, sizeof (void *));
			for (i = 0; i < k; i++) tab[i] = src[i];
			for (j = k; j < n; j++) { mine[j] = malloc ((size_t) len + 1); memset (mine[j], 0xA7, (size_t) len + 1); }
			for (pass = 0; pass < 4; pass++)
				for (q = 0; q < nb; q++) {
					/* pass 0: decreasing, buffers; pass 1: stride order, same (now used) buffers; pass 2: increasing, NULL slots; pass 3: the first and last again, buffers */
					int e = pass == 0 ? n - 1 - q : pass == 1 ? k + (q * 3 + 1) % nb : pass == 2 ? k + q : (q == 0 ? k : n - 1);
					void *lib = NULL;
					of_status_t st;
					if (pass == 3 && q > 1) break;
					tab[e] = pass == 2 ? NULL : mine[e];
					snprintf (vf_slot (), VF_SLOT_LEN, "%s", g_case);
					st = of_build_repair_symbol (s, tab, (UINT32) e);
					vf_stat_add (st_trans, 1);
					if (st != OF_STATUS_OK || !tab[e]) { snprintf (sig, sizeof sig, "codec=%s|call=build|kind=fails-in-history|pass=%d", cn, pass); viol ("C06", sig); break; }
					if (pass == 2) lib = tab[e];
					rsr_encode_symbol (m, k, G + (size_t) e * k, pristine, want, (size_t) len);
					if (memcmp (tab[e], want, (size_t) len)) { snprintf (sig, sizeof sig, "codec=%s|call=build|kind=repair-differs-from-reference-generator|history-pass=%d", cn, pass); viol ("C06", sig); }
					if (pass != 2 && mine[e][len] != 0xA7) { snprintf (sig, sizeof sig, "codec=%s|call=build|kind=wrote-outside-repair-buffer|history-pass=%d", cn, pass); viol ("C07", sig); viol ("C06", sig); mine[e][len] = 0xA7; }
					for (i = 0; i < k; i++) if (tab[i] != src[i] || memcmp (src[i], pristine[i], (size_t) len)) { snprintf (sig, sizeof sig, "codec=%s|call=build|kind=source-buffer-or-table-modified", cn); viol ("C06", sig); viol ("C07", sig); memcpy (src[i], pristine[i], (size_t) len); tab[i] = src[i]; }
					if (lib) { free (lib); tab[e] = mine[e]; }
				}
			of_release_codec_instance (s);
			for (j = k; j < n; j++) free (mine[j]);
			free (tab); free (mine);
		}
	}
	/* decoder-session enc_matrix (codec 2): lose source 0, feed the reference codeword, finish */
	if (p->codec == 2 && n - k >= 1) {
		int rej;
		of_session_t *s = open_ses (2, p->m, k, n - k, 0, 0, len, OF_DECODER, &rej);
		if (s) {
			unsigned char **cw = malloc (sizeof (void *) * (size_t) (k + 1));
			void *t[256];
			of_rs_2_m_cb_t *cb = (of_rs_2_m_cb_t *) s;
			for (i = 1; i < k; i++) of_decode_with_new_symbol (s, src[i], (UINT32) i);
			cw[0] = malloc ((size_t) len);
			rsr_encode_symbol (m, k, G + (size_t) k * k, pristine, cw[0], (size_t) len);
			of_decode_with_new_symbol (s, cw[0], (UINT32) k);
			if (cb->enc_matrix && memcmp (cb->enc_matrix, G, (size_t) n * k)) { snprintf (sig, sizeof sig, "codec=%s|kind=enc_matrix-differs-from-reference|session=decoder", cn); viol ("C06", sig); viol ("C02", sig); }
			if (!of_is_decoding_complete (s)) { snprintf (sig, sizeof sig, "codec=%s|kind=decoder-with-k-symbols-not-complete", cn); viol ("C02", sig); }
			else { memset (t, 0, sizeof t); of_get_source_symbols_tab (s, t); if (!t[0] || memcmp (t[0], pristine[0], (size_t) len)) { snprintf (sig, sizeof sig, "codec=%s|kind=decoder-wrong-symbol", cn); viol ("C02", sig); } if (t[0] && t[0] != src[0]) free (t[0]); }
			of_release_codec_instance (s);
			free (cw[0]); free (cw);
			vf_stat_add (st_trans, k + 1);
		}
	}
	for (j = 0; j < n; j++) free (firstout[j]);
	for (i = 0; i < k; i++) { free (srcblk[i]); free (pristine[i]); }
	free (srcblk);
	free (src); free (pristine); free (want); free (firstout);
	vf_stat_add (st_points, 1);
}

/* ------------------------------------------------------------------ LDPC point */
static int sparse_equals_ref (of_mod2sparse *m, const bitmat *H, int k, int r, int skip_col_n1)
{
	/* library columns: 0..r-1 repair (ESI k+c), r..n-1 source (ESI c-r). rows and columns both walked. */
	int i, cnt_lib = 0, cnt_ref = 0, c;
	of_mod2entry *e;
	if (!m || m->n_rows != r || m->n_cols != k + r) return 0;
	for (i = 0; i < r; i++) {
		int prev = -1;
		for (e = of_mod2sparse_first_in_row (m, i); !of_mod2sparse_at_end_row (e); e = of_mod2sparse_next_in_row (e)) {
			int esi = e->col < r ? e->col + k : e->col - r;
			if (e->col <= prev || e->row != i) return 0;
			prev = e->col;
			if (!bm_get (H, i, esi)) return 0;
			cnt_lib++;
		}
	}
	for (i = 0; i < r; i++) for (c = 0; c < k + r; c++) if (bm_get (H, i, c)) { if (skip_col_n1 && c == k + r - 1) continue; cnt_ref++; }
	if (skip_col_n1) {	/* entries of the pre-injected last repair may have been consumed */
		int cl = 0;
		for (e = of_mod2sparse_first_in_col (m, r - 1); !of_mod2sparse_at_end_col (e); e = of_mod2sparse_next_in_col (e)) cl++;
		cnt_lib -= cl;
	}
	if (cnt_lib != cnt_ref) return 0;
	/* column walk agrees with row walk */
	for (c = 0; c < k + r; c++) {
		int prev = -1;
		for (e = of_mod2sparse_first_in_col (m, c); !of_mod2sparse_at_end_col (e); e = of_mod2sparse_next_in_col (e)) { if (e->row <= prev || e->col != c) return 0; prev = e->row; }
	}
	return 1;
}

static void ldpc_point (const pt_t *p)
{
	int k = p->k, r = p->r, n = p->n, len = p->len, i, j, mode, extra = 0, rej = 0;
	bitmat *H;
	of_session_t *se, *sd;
	char sig[200];
	bool enc_null = false, dec_null = false;
	int even_cols = 1;
#ifdef VF_TRK
	uint64_t mark0; long bad00;
#endif
	snprintf (g_case, sizeof g_case, "ldpc k=%d r=%d N1=%d seed=%d len=%d prefix=%d align=%d", k, r, p->N1, p->seed, len, p->prefix, p->slotmode & 7);
	memcpy (vf_slot (), g_case, sizeof g_case);
	run_prefix (p->prefix);
#ifdef VF_TRK
	mark0 = vf_trk_mark (); bad00 = vf_trk_badfree_count ();	/* everything this point allocates - library and harness - is gone at its end */
#endif
	vf_stat_add (st_prefixes, 1);
	H = rfc5170_H (k, n, p->N1, (uint64_t) (unsigned) p->seed, &extra);
	for (j = 0; j < k; j++) { int w = 0; for (i = 0; i < r; i++) w += bm_get (H, i, j); if (w & 1) even_cols = 0; }

	se = open_ses (3, 0, k, r, p->N1, p->seed, len, OF_ENCODER, &rej);
	if (!se) { viol ("C09", "codec=ldpc|kind=valid-configuration-rejected|session=encoder"); bm_free (H); return; }
	if (!sparse_equals_ref (((of_ldpc_staircase_cb_t *) se)->pchk_matrix, H, k, r, 0)) { snprintf (sig, sizeof sig, "kind=pchk-differs-from-rfc5170|session=encoder|prefix=%d", p->prefix); viol ("C05", sig); }
	if (of_get_control_parameter (se, OF_CRTL_LDPC_STAIRCASE_IS_LAST_SYMBOL_NULL, &enc_null, sizeof enc_null) != OF_STATUS_OK) viol ("C15", "kind=control-parameter-query-failed|session=encoder");
	if (p->prefix == 0 || p->prefix == 5) run_prefix (p->prefix == 5 ? 1 : 0);	/* something between the two sessions, too */
	sd = open_ses (3, 0, k, r, p->N1, p->seed, len, OF_DECODER, &rej);
	if (!sd) viol ("C09", "codec=ldpc|kind=valid-configuration-rejected|session=decoder");
	else {
		if (of_get_control_parameter (sd, OF_CRTL_LDPC_STAIRCASE_IS_LAST_SYMBOL_NULL, &dec_null, sizeof dec_null) != OF_STATUS_OK) viol ("C15", "kind=control-parameter-query-failed|session=decoder");
		if (!sparse_equals_ref (((of_ldpc_staircase_cb_t *) sd)->pchk_matrix, H, k, r, dec_null ? 1 : 0)) { snprintf (sig, sizeof sig, "kind=pchk-differs-from-rfc5170|session=decoder|prefix=%d", p->prefix); viol ("C05", sig); }
		if ((enc_null ? 1 : 0) != (dec_null ? 1 : 0)) viol ("C15", "kind=encoder-and-decoder-disagree");
		of_release_codec_instance (sd);
	}
	if (enc_null) {
		vf_stat_add (st_nullclaims, 1);
		if (!even_cols) viol ("C15", "kind=claimed-null-but-a-source-column-of-the-rfc-matrix-has-odd-weight");
	}
	/* behavioural: encode the identity(+dense) payload, two slot modes (structural comparison only for the very large points) */
	if (k <= 2000) {
		pt_t q = *p;
		int al = p->slotmode & 7;	/* alignment of the application buffers under test (exact-size blocks, canary after the repair buffers) */
		unsigned char **src = malloc (sizeof (void *) * (size_t) k), **pri = malloc (sizeof (void *) * (size_t) k), **first = calloc ((size_t) n, sizeof (void *));
		void **srcblk = calloc ((size_t) k, sizeof (void *));
		q.codec = 3;
		for (i = 0; i < k; i++) { srcblk[i] = malloc ((size_t) al + (size_t) len); src[i] = (unsigned char *) srcblk[i] + al; pri[i] = malloc ((size_t) len); fill_source (&q, i, src[i]); memcpy (pri[i], src[i], (size_t) len); }
		for (mode = 0; mode < 2; mode++) {
			void **tab = malloc (sizeof (void *) * (size_t) n);
			unsigned char **mine = calloc ((size_t) n, sizeof (void *));
			of_session_t *s = mode == 0 ? se : open_ses (3, 0, k, r, p->N1, p->seed, len, OF_ENCODER, &rej);
			int failed = 0;
#ifdef VF_TRK
			uint64_t mark = vf_trk_serial (tab);	/* blocks allocated after tab */
#endif
			if (!s) { free (tab); free (mine); continue; }
			for (i = 0; i < k; i++) tab[i] = src[i];
			for (i = k; i < n; i++) { if (mode == 0) { mine[i] = malloc ((size_t) al + (size_t) len + 8); memset (mine[i], 0x5A, (size_t) al + (size_t) len + 8); tab[i] = mine[i] + al; } else tab[i] = NULL; }
			for (j = k; j < n && !failed; j++) {
				of_status_t st;
				snprintf (vf_slot (), VF_SLOT_LEN, "%s build esi=%d slot=%s", g_case, j, mode ? "null" : "buffer");
				st = of_build_repair_symbol (s, tab, (UINT32) j);
				vf_stat_add (st_trans, 1);
				if (st != OF_STATUS_OK) { snprintf (sig, sizeof sig, "codec=ldpc|call=build|kind=status-%d|slot=%s", (int) st, mode ? "null" : "buffer"); viol (PROP, sig); failed = 1; break; }
				if (!tab[j]) { viol ("C06", "codec=ldpc|call=build|kind=null-slot-left-null"); failed = 1; break; }
				if (mode == 0 && tab[j] != mine[j] + al) viol ("C06", "codec=ldpc|call=build|kind=application-slot-replaced");
				if (mode == 0) { int qq, badc = 0; for (qq = 0; qq < al; qq++) if (mine[j][qq] != 0x5A) badc = 1; for (qq = 0; qq < 8; qq++) if (mine[j][al + len + qq] != 0x5A) badc = 1; if (badc) { viol ("C07", "codec=ldpc|call=build|kind=wrote-outside-repair-buffer"); viol ("C06", "codec=ldpc|call=build|kind=wrote-outside-repair-buffer"); } }
#ifdef VF_TRK
				if (mode == 1 && (!vf_trk_is_live (tab[j]) || vf_trk_size (tab[j]) < (size_t) len || vf_trk_serial (tab[j]) < mark)) { viol ("C06", "codec=ldpc|call=build|kind=null-slot-not-a-fresh-library-block"); failed = 1; break; }
#endif
				for (i = 0; i < k; i++) if (tab[i] != src[i] || memcmp (src[i], pri[i], (size_t) len)) { viol ("C06", "codec=ldpc|call=build|kind=source-buffer-or-table-modified"); viol ("C07", "codec=ldpc|call=build|kind=source-buffer-or-table-modified"); memcpy (src[i], pri[i], (size_t) len); tab[i] = src[i]; }
			}
			if (!failed) {
				/* every equation of the reference matrix sums to zero over the produced codeword */
				unsigned char *acc = malloc ((size_t) len);
				int badrow = -1, b;
				for (i = 0; i < r && badrow < 0; i++) {
					memset (acc, 0, (size_t) len);
					for (j = 0; j < n; j++) if (bm_get (H, i, j)) for (b = 0; b < len; b++) acc[b] ^= ((unsigned char *) tab[j])[b];
					for (b = 0; b < len; b++) if (acc[b]) { badrow = i; break; }
				}
				if (badrow >= 0) { snprintf (sig, sizeof sig, "codec=ldpc|kind=codeword-violates-rfc5170-equation|slot=%s|prefix=%d", mode ? "null" : "buffer", p->prefix); viol ("C06", sig); viol ("C05", sig); }
				if (enc_null) { for (b = 0; b < len; b++) if (((unsigned char *) tab[n - 1])[b]) { viol ("C15", "kind=claimed-null-but-last-repair-symbol-not-zero"); break; } }
				{	/* the answer is a property of the code: asked again after encoding, and twice, it is the same */
					bool again = !enc_null, again2 = !enc_null;
					if (of_get_control_parameter (s, OF_CRTL_LDPC_STAIRCASE_IS_LAST_SYMBOL_NULL, &again, sizeof again) != OF_STATUS_OK || of_get_control_parameter (s, OF_CRTL_LDPC_STAIRCASE_IS_LAST_SYMBOL_NULL, &again2, sizeof again2) != OF_STATUS_OK) viol ("C15", "kind=control-parameter-query-failed|session=encoder|moment=after-encoding");
					else if ((again ? 1 : 0) != (enc_null ? 1 : 0) || (again2 ? 1 : 0) != (enc_null ? 1 : 0)) viol ("C15", "kind=answer-changes-after-encoding");
				}
				for (j = k; j < n; j++) {
					if (mode == 0) { first[j] = malloc ((size_t) len); memcpy (first[j], tab[j], (size_t) len); }
					else if (first[j] && memcmp (first[j], tab[j], (size_t) len)) { viol ("C06", "codec=ldpc|call=build|kind=null-slot-value-differs-from-buffer-mode"); break; }
				}
				free (acc);
			}
			of_release_codec_instance (s);
			for (j = k; j < n; j++) { if (mode == 1 && tab[j]) free (tab[j]); free (mine[j]); }
			free (tab); free (mine);
		}
		/* a repair symbol asked for before its predecessor exists (NULL slots): the library may refuse, but then the
		 * slot must not be left pointing at memory it no longer owns; the proper order afterwards gives the usual values */
		if (len <= 4200 && n <= 400 && r >= 3 && first[k]) {
			of_session_t *s = open_ses (3, 0, k, r, p->N1, p->seed, len, OF_ENCODER, &rej);
			if (s) {
				void **tab = calloc ((size_t) n, sizeof (void *));
				of_status_t st;
				for (i = 0; i < k; i++) tab[i] = src[i];
				st = of_build_repair_symbol (s, tab, (UINT32) (k + 2));
				vf_stat_add (st_trans, 1);
				if (st != OF_STATUS_OK && tab[k + 2]) {
#ifdef VF_TRK
					if (!vf_trk_is_live (tab[k + 2])) { viol ("C08", "codec=ldpc|call=build|kind=refused-build-left-a-dangling-slot"); viol ("C07", "codec=ldpc|call=build|kind=refused-build-left-a-dangling-slot"); tab[k + 2] = NULL; }
#endif
					if (tab[k + 2]) { volatile unsigned char probe = ((unsigned char *) tab[k + 2])[0]; (void) probe; free (tab[k + 2]); tab[k + 2] = NULL; }	/* ASan variant: the read traps on freed memory */
				}
				if (st == OF_STATUS_OK && tab[k + 2]) { free (tab[k + 2]); tab[k + 2] = NULL; }
				for (j = k; j < n; j++) {
					if (of_build_repair_symbol (s, tab, (UINT32) j) != OF_STATUS_OK || !tab[j]) { viol ("C09", "codec=ldpc|kind=session-unusable-after-refused-build"); break; }
					if (first[j] && memcmp (first[j], tab[j], (size_t) len)) { viol ("C06", "codec=ldpc|call=build|kind=rebuilt-symbol-differs|after-refused-build"); break; }
				}
				of_release_codec_instance (s);
				for (j = k; j < n; j++) free (tab[j]);
				free (tab);
			}
		}
		/* encoder histories on ONE session: increasing pass, every symbol rebuilt at once into its used buffer, then a
		 * decreasing pass (tab[j-1] is present, as the staircase needs), then NULL slots: all equal to the first pass */
		if (len <= 4200 && n <= 400 && first[k]) {
			of_session_t *s = open_ses (3, 0, k, r, p->N1, p->seed, len, OF_ENCODER, &rej);
			if (s) {
				void **tab = calloc ((size_t) n, sizeof (void *));
				unsigned char **mine = calloc ((size_t) n, sizeof (void *));
				int pass, okh = 1;
				for (i = 0; i < k; i++) tab[i] = src[i];
				for (j = k; j < n; j++) { mine[j] = malloc ((size_t) len + 1); memset (mine[j], 0xA7, (size_t) len + 1); tab[j] = mine[j]; }
				for (pass = 0; pass < 3 && okh; pass++)
					for (j = (pass == 1 ? n - 1 : k); okh && (pass == 1 ? j >= k : j < n); j += (pass == 1 ? -1 : 1)) {
						int rep, nrep = pass == 0 ? 2 : 1;
						for (rep = 0; rep < nrep && okh; rep++) {
							void *lib = NULL;
							if (pass == 2) tab[j] = NULL;
							if (of_build_repair_symbol (s, tab, (UINT32) j) != OF_STATUS_OK || !tab[j]) { snprintf (sig, sizeof sig, "codec=ldpc|call=build|kind=fails-in-history|pass=%d", pass); viol ("C06", sig); okh = 0; break; }
							vf_stat_add (st_trans, 1);
							if (pass == 2) lib = tab[j];
							if (first[j] && memcmp (first[j], tab[j], (size_t) len)) { snprintf (sig, sizeof sig, "codec=ldpc|call=build|kind=rebuilt-symbol-differs|history-pass=%d|rep=%d", pass, rep); viol ("C06", sig); okh = 0; }
							if (pass != 2 && mine[j][len] != 0xA7) { viol ("C07", "codec=ldpc|call=build|kind=wrote-outside-repair-buffer|history"); viol ("C06", "codec=ldpc|call=build|kind=wrote-outside-repair-buffer|history"); mine[j][len] = 0xA7; }
							if (lib) { free (lib); tab[j] = mine[j]; }
						}
					}
				for (i = 0; i < k; i++) if (memcmp (src[i], pri[i], (size_t) len)) { viol ("C06", "codec=ldpc|call=build|kind=source-buffer-or-table-modified"); viol ("C07", "codec=ldpc|call=build|kind=source-buffer-or-table-modified"); memcpy (src[i], pri[i], (size_t) len); }
				of_release_codec_instance (s);
				for (j = k; j < n; j++) free (mine[j]);
				free (tab); free (mine);
			}
		}
		for (j = 0; j < n; j++) free (first[j]);
		for (i = 0; i < k; i++) { free (srcblk[i]); free (pri[i]); }
		free (srcblk);
		free (src); free (pri); free (first);
	}
	if (k > 2000) of_release_codec_instance (se);
	bm_free (H);
#ifdef VF_TRK
	if (vf_trk_live_since (mark0, NULL) != 0) viol ("C08", "codec=ldpc|kind=leak|lifecycle=encoder-and-decoder-sessions-of-one-point");
	if (vf_trk_badfree_count () != bad00) viol ("C08", "codec=ldpc|kind=free-of-non-live-block|lifecycle=encoder");
	if (vf_trk_old_freed ()) { viol ("C08", "codec=ldpc|kind=library-freed-application-memory|lifecycle=encoder"); viol ("C07", "codec=ldpc|kind=library-freed-application-memory|lifecycle=encoder"); }
#endif
	vf_stat_add (st_points, 1);
	{ char nm[48]; snprintf (nm, sizeof nm, "ldpc:null_last=%d:extra=%d:N1even=%d", enc_null ? 1 : 0, extra, !(p->N1 & 1)); vf_outcome (nm, 1); }
}


/* ------------------------------------------------------------------ 2D parity point (C16: structure + encoder) */
static void p2d_probe (long it, void *arg)
{
	of_session_t *s = NULL;
	of_2d_parity_parameters_t p;
	(void) arg;
	memset (&p, 0, sizeof p); p.nb_source_symbols = (UINT32) (it / 64); p.nb_repair_symbols = (UINT32) (it % 64); p.encoding_symbol_length = 4;
	if (of_create_codec_instance (&s, OF_CODEC_2D_PARITY_MATRIX_STABLE, OF_ENCODER_AND_DECODER, 0) != OF_STATUS_OK || !s) _exit (1);
	if (of_set_fec_parameters (s, (of_parameters_t *) &p) != OF_STATUS_OK) _exit (1);
	of_release_codec_instance (s);
}
static void p2d_point (const pt_t *p)
{
	int k = p->k, r = p->r, n = k + r, len = p->len > 0 ? p->len : k + 2, i, j, a, b, rc, mode;
	of_session_t *s = NULL;
	of_2d_parity_parameters_t prm;
	char sig[200], ak[32], af[32];
	snprintf (g_case, sizeof g_case, "2d k=%d r=%d len=%d", k, r, len);
	memcpy (vf_slot (), g_case, sizeof g_case);
	rc = vf_run_isolated (p2d_probe, (long) k * 64 + r, NULL, 20, ak, af, sizeof ak);
	if (rc > 0 || rc == -1) { snprintf (sig, sizeof sig, "call=set_fec_parameters|kind=%s", rc == -1 ? "hang" : "crash"); viol ("C16", sig); return; }
	if (rc != 0) { vf_outcome ("2d:rejected", 1); return; }
	vf_outcome ("2d:accepted", 1);
	memset (&prm, 0, sizeof prm); prm.nb_source_symbols = (UINT32) k; prm.nb_repair_symbols = (UINT32) r; prm.encoding_symbol_length = (UINT32) len;
	if (of_create_codec_instance (&s, OF_CODEC_2D_PARITY_MATRIX_STABLE, OF_ENCODER, 0) != OF_STATUS_OK || !s) return;
	if (of_set_fec_parameters (s, (of_parameters_t *) &prm) != OF_STATUS_OK) { of_release_codec_instance (s); return; }
	{
		of_mod2sparse *m = ((of_2d_parity_cb_t *) s)->pchk_matrix;
		of_mod2entry *e;
		bitmat *H = bm_new (r, n);
		int cls[64], shared[64][64], colw, bad = 0, nent = 0, changed;
		if (!m || m->n_rows != r || m->n_cols != n) { viol ("C16", "kind=matrix-has-wrong-dimensions"); bm_free (H); of_release_codec_instance (s); return; }
		for (i = 0; i < r; i++)
			for (e = of_mod2sparse_first_in_row (m, i); !of_mod2sparse_at_end_row (e); e = of_mod2sparse_next_in_row (e)) {
				int esi = e->col < r ? e->col + k : e->col - r;
				if (esi < 0 || esi >= n) { bad = 1; continue; }
				bm_set (H, i, esi); nent++;
			}
		if (bad) viol ("C16", "kind=matrix-entry-out-of-range");
		/* each check has its own repair symbol */
		for (i = 0; i < r && !bad; i++) { int c = 0; for (j = k; j < n; j++) c += bm_get (H, i, j); if (c != 1) { viol ("C16", "kind=check-without-exactly-one-repair-symbol"); bad = 1; } }
		for (j = k; j < n && !bad; j++) { int c = 0; for (i = 0; i < r; i++) c += bm_get (H, i, j); if (c != 1) { viol ("C16", "kind=repair-symbol-not-in-exactly-one-check"); bad = 1; } }
		/* every source symbol is in exactly two checks */
		for (j = 0; j < k && !bad; j++) { colw = 0; for (i = 0; i < r; i++) colw += bm_get (H, i, j); if (colw != 2) { snprintf (sig, sizeof sig, "kind=source-symbol-in-%d-checks-instead-of-2", colw); viol ("C16", sig); bad = 1; } }
		if (nent != k * 2 + r && !bad) { viol ("C16", "kind=wrong-number-of-entries"); bad = 1; }
		/* two classes of checks (row / column checks): 2-colour the graph "two checks share a source" */
		if (!bad) {
			memset (shared, 0, sizeof shared);
			for (j = 0; j < k; j++) { a = b = -1; for (i = 0; i < r; i++) if (bm_get (H, i, j)) { if (a < 0) a = i; else b = i; } shared[a][b]++; shared[b][a]++; }
			for (i = 0; i < r; i++) cls[i] = -1;
			for (i = 0; i < r; i++) {
				if (cls[i] >= 0) continue;
				cls[i] = 0;
				do {
					changed = 0;
					for (a = 0; a < r; a++) for (b = 0; b < r; b++) if (shared[a][b] && cls[a] >= 0 && cls[b] < 0) { cls[b] = 1 - cls[a]; changed = 1; }
				} while (changed);
			}
			for (a = 0; a < r && !bad; a++) for (b = 0; b < r && !bad; b++) {
				if (a == b) continue;
				if (cls[a] == cls[b] && shared[a][b]) { viol ("C16", "kind=checks-do-not-split-into-row-and-column-classes"); bad = 1; }
				if (cls[a] != cls[b] && shared[a][b] != 1) { snprintf (sig, sizeof sig, "kind=row-check-and-column-check-share-%d-sources-instead-of-1", shared[a][b]); viol ("C16", sig); bad = 1; }
			}
			if (!bad) { int c0 = 0, c1 = 0; for (i = 0; i < r; i++) if (cls[i]) c1++; else c0++; if (c0 * c1 != k || c0 + c1 != r) { viol ("C16", "kind=not-a-d-x-l-product"); bad = 1; } else { char nm[48]; snprintf (nm, sizeof nm, "2d:product:%dx%d", c0 < c1 ? c0 : c1, c0 < c1 ? c1 : c0); vf_outcome (nm, 1); } }
		}
		/* encoder satisfies every check, both slot modes */
		{
			pt_t q = *p; unsigned char **src = malloc (sizeof (void *) * (size_t) (k ? k : 1)), **pri = malloc (sizeof (void *) * (size_t) (k ? k : 1));
			q.codec = 5; q.len = len;
			for (i = 0; i < k; i++) { src[i] = malloc ((size_t) len); pri[i] = malloc ((size_t) len); fill_source (&q, i, src[i]); memcpy (pri[i], src[i], (size_t) len); }
			for (mode = 0; mode < 3; mode++) {	/* 0: application buffers, increasing; 1: NULL slots; 2: decreasing order, every symbol built twice into its (then used) buffer */
				void **tab = calloc ((size_t) n, sizeof (void *)); unsigned char **mine = calloc ((size_t) n, sizeof (void *));
				int failed = 0, bb;
				for (i = 0; i < k; i++) tab[i] = src[i];
				for (i = k; i < n; i++) if (mode != 1) { mine[i] = malloc ((size_t) len); memset (mine[i], 0x5A, (size_t) len); tab[i] = mine[i]; }
				if (mode == 2) for (j = n - 1; j >= k; j--) { int rep; for (rep = 0; rep < 2; rep++) if (of_build_repair_symbol (s, tab, (UINT32) j) != OF_STATUS_OK || tab[j] != mine[j]) { viol ("C16", "call=build|kind=failed|slot=buffer|order=decreasing-twice"); failed = 1; break; } vf_stat_add (st_trans, 2); if (failed) break; }
				for (j = k; j < n && mode != 2; j++) {
					snprintf (vf_slot (), VF_SLOT_LEN, "%s build esi=%d slot=%s", g_case, j, mode ? "null" : "buffer");
					if (of_build_repair_symbol (s, tab, (UINT32) j) != OF_STATUS_OK || !tab[j]) { snprintf (sig, sizeof sig, "call=build|kind=failed|slot=%s", mode ? "null" : "buffer"); viol ("C16", sig); failed = 1; break; }
					vf_stat_add (st_trans, 1);
				}
				for (i = 0; i < k; i++) if (memcmp (src[i], pri[i], (size_t) len)) { viol ("C16", "call=build|kind=source-buffer-modified"); memcpy (src[i], pri[i], (size_t) len); }
				if (!failed)
					for (i = 0; i < r; i++) {
						unsigned char *acc = calloc (1, (size_t) len + 1);
						for (j = 0; j < n; j++) if (bm_get (H, i, j)) for (bb = 0; bb < len; bb++) acc[bb] ^= ((unsigned char *) tab[j])[bb];
						for (bb = 0; bb < len; bb++) if (acc[bb]) { viol ("C16", "kind=encoder-output-violates-a-check"); i = r; break; }
						free (acc);
					}
				for (j = k; j < n; j++) { if (mode == 1 && tab[j]) free (tab[j]); free (mine[j]); }
				free (tab); free (mine);
			}
			for (i = 0; i < k; i++) { free (src[i]); free (pri[i]); }
			free (src); free (pri);
		}
		bm_free (H);
	}
	of_release_codec_instance (s);
	vf_stat_add (st_points, 1);
}

/* ------------------------------------------------------------------ one session used as encoder AND decoder (C08 / C06 / C01 clauses on it) */
static void both_point (const pt_t *p)
{
	int k = p->k, r = p->r, n = k + r, len = p->len, i, j, lost;
	unsigned char **sym = calloc ((size_t) n, sizeof (void *));
	void **tab = calloc ((size_t) n, sizeof (void *)), **src = calloc ((size_t) k, sizeof (void *));
	of_session_t *s;
	int rej = 0;
	char sig[200];
	const char *cn = p->codec == 1 ? "rs28" : p->codec == 2 ? (p->m == 4 ? "rs2m4" : "rs2m8") : "ldpc";
#ifdef VF_TRK
	uint64_t mark; long bad0;
#endif
	/* which repair symbols the session builds itself before it decodes: 0 all (increasing), 1 the last one only, 2 none,
	 * 3 the first one only, 4 all in decreasing order (RS); the codeword it decodes comes from a separate encoder session */
	int built = p->slotmode >= 9 ? p->slotmode - 9 : 0, nb = 0;
	unsigned char **scratch = calloc ((size_t) n, sizeof (void *));
	void **tab2 = calloc ((size_t) n, sizeof (void *));
	snprintf (g_case, sizeof g_case, "both codec=%d m=%d k=%d r=%d N1=%d seed=%d len=%d lost=%d built=%d", p->codec, p->m, k, r, p->N1, p->seed, len, p->prefix, built);
	memcpy (vf_slot (), g_case, sizeof g_case);
	lost = p->prefix;
	for (i = 0; i < n; i++) { sym[i] = calloc (1, (size_t) len); tab[i] = sym[i]; scratch[i] = calloc (1, (size_t) len); tab2[i] = i < k ? (void *) sym[i] : (void *) scratch[i]; }
	for (i = 0; i < k; i++) fill_source (p, i, sym[i]);
	{
		of_session_t *twin = open_ses (p->codec, p->m, k, r, p->N1, p->seed, len, OF_ENCODER, &rej);
		if (!twin) { viol ("C09", "kind=valid-configuration-rejected|role=encoder"); free (scratch); free (tab2); goto out; }
		for (j = k; j < n; j++) of_build_repair_symbol (twin, tab, (UINT32) j);
		of_release_codec_instance (twin);
	}
#ifdef VF_TRK
	mark = vf_trk_mark (); bad0 = vf_trk_badfree_count ();
#endif
	s = open_ses (p->codec, p->m, k, r, p->N1, p->seed, len, OF_ENCODER_AND_DECODER, &rej);
	if (!s) { viol ("C09", "kind=valid-configuration-rejected|role=both"); for (i = 0; i < n; i++) free (scratch[i]); free (scratch); free (tab2); goto out; }
	for (j = (built == 4 ? n - 1 : k); built == 4 ? j >= k : j < n; j += (built == 4 ? -1 : 1)) {
		if (built == 2 || (built == 1 && j != n - 1) || (built == 3 && j != k)) continue;
		nb++;
		if (of_build_repair_symbol (s, tab2, (UINT32) j) != OF_STATUS_OK) { snprintf (sig, sizeof sig, "codec=%s|role=both|call=build|kind=failed", cn); viol ("C06", sig); break; }
		if (memcmp (scratch[j], sym[j], (size_t) len)) { snprintf (sig, sizeof sig, "codec=%s|role=both|call=build|kind=differs-from-encoder-session|built=%d", cn, built); viol ("C06", sig); }
	}
	vf_stat_add (st_trans, nb);
	/* now decode on the same session: every symbol but `lost` sources (the first `lost` ones); lost = 9 (LDPC): the first
	 * received set (in subset order) that peeling cannot finish but that determines all sources, so FINISH must solve */
	if (lost == 9) {
		bitmat *H = rfc5170_H (k, n, p->N1, (uint64_t) p->seed, NULL);
		uint64_t S, pick = 0; int found = 0;
		for (S = 0; S < ((uint64_t) 1 << n) && !found; S++) {
			uint64_t k2 = S, known = S; int nu, rk, all = 1;
			gf2_peel (H, &k2);
			for (i = 0; i < k; i++) if (!((k2 >> i) & 1)) all = 0;
			if (all) continue;
			rk = gf2_rank_unknown (H, &known, &nu);
			if (rk == nu) { pick = S; found = 1; }
		}
		bm_free (H);
		if (!found) { of_release_codec_instance (s); for (i = 0; i < n; i++) free (scratch[i]); free (scratch); free (tab2); vf_outcome ("both:no-ml-only-set", 1); goto out; }
		for (i = 0; i < n; i++) if ((pick >> i) & 1) if (of_decode_with_new_symbol (s, sym[i], (UINT32) i) != OF_STATUS_OK) { snprintf (sig, sizeof sig, "codec=%s|role=both|call=DWS|kind=status-not-ok", cn); viol ("C10", sig); break; }
		lost = 0;	/* the set determines everything: the clauses below expect completion */
	} else
	for (i = lost; i < n; i++) if (of_decode_with_new_symbol (s, sym[i], (UINT32) i) != OF_STATUS_OK) { snprintf (sig, sizeof sig, "codec=%s|role=both|call=DWS|kind=status-not-ok", cn); viol ("C10", sig); break; }
	{
		int fst = -1, cpl, gst, nav = 0, allok = 1;
		if (!of_is_decoding_complete (s)) fst = (int) of_finish_decoding (s);
		vf_stat_add (st_trans, n - lost + 1);
		cpl = of_is_decoding_complete (s) ? 1 : 0;
		gst = (int) of_get_source_symbols_tab (s, src);
		if (gst == OF_STATUS_OK) for (i = 0; i < k; i++) { if (src[i]) nav++; if (!src[i] || memcmp (src[i], sym[i], (size_t) len)) allok = 0; } else { allok = 0; for (i = 0; i < k; i++) src[i] = NULL; }
		/* C10 clauses on a session that has both roles */
		if (cpl != (gst == OF_STATUS_OK && nav == k)) { snprintf (sig, sizeof sig, "codec=%s|role=both|kind=completion-flag-disagrees-with-source-table(%d,%d)", cn, cpl, nav == k); viol ("C10", sig); }
		if (fst >= 0 && ((fst == OF_STATUS_OK) != (cpl == 1) || (fst != OF_STATUS_OK && fst != OF_STATUS_FAILURE))) { snprintf (sig, sizeof sig, "codec=%s|role=both|call=FINISH|kind=status-%d-with-complete=%d", cn, fst, cpl); viol ("C10", sig); }
		if (gst == OF_STATUS_OK) for (i = 0; i < k; i++) if (src[i] && memcmp (src[i], sym[i], (size_t) len)) { snprintf (sig, sizeof sig, "codec=%s|role=both|kind=wrong-source-symbol", cn); viol ("C01", sig); break; }
		if (lost <= r && p->codec != 3 && !(cpl && allok)) { snprintf (sig, sizeof sig, "codec=%s|role=both|kind=not-complete-with-k-symbols", cn); viol ("C02", sig); }
		if (p->codec == 3 && p->prefix == 9 && !(cpl && allok)) { snprintf (sig, sizeof sig, "codec=ldpc|role=both|call=FINISH|kind=%s|built=%d", cpl ? "recovered-with-wrong-values" : "recoverable-but-not-recovered", built); viol ("C03", sig); if (cpl) viol ("C01", sig); }
	}
	of_release_codec_instance (s);
	for (i = 0; i < k; i++) { int own = 0; for (j = 0; j < n; j++) if (src[i] == sym[j]) own = 1; if (src[i] && !own) free (src[i]); }
#ifdef VF_TRK
	if (vf_trk_live_since (mark, NULL)) { snprintf (sig, sizeof sig, "codec=%s|kind=leak|lifecycle=encoder-then-decoder-on-one-session|lost=%d", cn, lost > 0); viol ("C08", sig); }
	if (vf_trk_badfree_count () != bad0) { snprintf (sig, sizeof sig, "codec=%s|kind=free-of-non-live-block|lifecycle=encoder-then-decoder-on-one-session", cn); viol ("C08", sig); }
#endif
	for (i = 0; i < n; i++) free (scratch[i]);
	free (scratch); free (tab2);
out:
	for (i = 0; i < n; i++) free (sym[i]);
	free (sym); free (tab); free (src);
	vf_stat_add (st_points, 1);
}

/* ------------------------------------------------------------------ the reference generator itself is MDS (complete for m=4) */
static int gf_rank (int m, unsigned char *M, int rows, int cols)
{
	int rk = 0, c, r, j;
	for (c = 0; c < cols && rk < rows; c++) {
		int piv = -1; unsigned inv;
		for (r = rk; r < rows; r++) if (M[r * cols + c]) { piv = r; break; }
		if (piv < 0) continue;
		if (piv != rk) for (j = 0; j < cols; j++) { unsigned char t = M[rk * cols + j]; M[rk * cols + j] = M[piv * cols + j]; M[piv * cols + j] = t; }
		inv = gfr_inv (m, M[rk * cols + c]);
		for (j = 0; j < cols; j++) M[rk * cols + j] = (unsigned char) gfr_mul (m, M[rk * cols + j], inv);
		for (r = 0; r < rows; r++) { unsigned f = M[r * cols + c]; if (r == rk || !f) continue; for (j = 0; j < cols; j++) M[r * cols + j] ^= (unsigned char) gfr_mul (m, f, M[rk * cols + j]); }
		rk++;
	}
	return rk;
}
static void refmds_point (const pt_t *p)
{
	int k = p->k, n = 15, S, i, cnt;
	unsigned char G[15 * 15], M[15 * 15];
	snprintf (g_case, sizeof g_case, "refmds k=%d", k); memcpy (vf_slot (), g_case, sizeof g_case);
	rsr_generator (4, k, n, G);
	for (S = 0; S < (1 << n); S++) {
		if (__builtin_popcount ((unsigned) S) != k) continue;
		for (i = 0, cnt = 0; i < n; i++) if ((S >> i) & 1) { memcpy (M + cnt * k, G + i * k, (size_t) k); cnt++; }
		if (gf_rank (4, M, k, k) != k) { char sig[96]; snprintf (sig, sizeof sig, "kind=reference-generator-not-MDS|k=%d", k); viol ("MACHINERY", sig); break; }
		vf_stat_add (st_trans, 1);
	}
	vf_stat_add (st_points, 1);
}


/* ------------------------------------------------------------------ hist mode (C05: "in any process and after any history of other sessions")
 * Every sequence of LDPC sessions of a given length over a small alphabet of codes - two small ones, one just above
 * 4096 symbols, a large low-rate one (thorough: a medium one too) - each sequence in a process of its own; position parity
 * selects encoder / decoder, sequence parity whether the previous session is still open when the next is created.
 * Every session's matrix is compared entry by entry with the RFC 5170 reference of ITS parameters. */
typedef struct { int k, r, N1, seed; } hc_t;
static const hc_t HC[5] = {{5, 4, 3, 1}, {7, 5, 4, 2}, {4090, 7, 3, 1}, {3000, 1500, 5, 9}, {300, 100, 6, 4}};
static bitmat *HREF[5];
static int g_halpha = 4, g_hlen = 6;
/* family 2: symbols 0..2 are measured LDPC sessions (n = 9, 12 and an even-N1 low-rate code whose last repair symbol is
 * null), symbols 3.. are activities of other kinds that must leave no trace */
#define NACT 8
static const hc_t HC2[3] = {{5, 4, 3, 1}, {7, 5, 4, 2}, {3, 9, 4, 3}};
static bitmat *HREF2[3];
static signed char *NULLBASE;	/* [family 0: 5 codes][2 roles], [family 2: 3 codes][2 roles]: IS_LAST_SYMBOL_NULL in a pristine process */
static int g_hfam = 0;
static void hist_activity (int a)
{
	of_session_t *s; int rej = 0, i;
	unsigned char sym[24][8]; void *tab[24];
	for (i = 0; i < 24; i++) { memset (sym[i], i * 7 + 1, 8); tab[i] = sym[i]; }
	switch (a) {
	case 0: s = open_ses (1, 8, 3, 2, 0, 0, 8, OF_ENCODER, &rej); if (s) { of_build_repair_symbol (s, tab, 3); of_build_repair_symbol (s, tab, 4); of_release_codec_instance (s); } break;
	case 1: s = open_ses (2, 4, 3, 2, 0, 0, 8, OF_DECODER, &rej); if (s) { of_decode_with_new_symbol (s, sym[1], 1); of_decode_with_new_symbol (s, sym[3], 3); of_decode_with_new_symbol (s, sym[4], 4); { void *t[3] = {0}; if (of_get_source_symbols_tab (s, t) == OF_STATUS_OK && t[0] && t[0] != sym[0]) free (t[0]); } of_release_codec_instance (s); } break;
	case 2: s = open_ses (2, 8, 4, 3, 0, 0, 8, OF_ENCODER_AND_DECODER, &rej); if (s) { of_build_repair_symbol (s, tab, 5); of_release_codec_instance (s); } break;
	case 3: s = open_ses (3, 0, 5, 4, 9, 77, 8, OF_DECODER, &rej); if (s) of_release_codec_instance (s); break;	/* rejected: N1 > n-k */
	case 4: s = open_ses (3, 0, 5, 4, 3, 0, 8, OF_ENCODER, &rej); if (s) of_release_codec_instance (s); break;	/* rejected: seed 0 */
	case 5: {	/* an LDPC decoder that ends in Gaussian elimination (consumes rand()), then a displaced PRNG state */
		unsigned char z[9][4]; memset (z, 0, sizeof z);
		s = open_ses (3, 0, 4, 5, 3, 99, 4, OF_DECODER, &rej);
		if (s) { void *t[4] = {0}; for (i = 4; i < 8; i++) of_decode_with_new_symbol (s, z[i], (UINT32) i); of_finish_decoding (s); of_get_source_symbols_tab (s, t); of_release_codec_instance (s); for (i = 0; i < 4; i++) free (t[i]); }
		break; }
	case 6: {	/* a 2D parity session: encoder, then a decoder with one loss */
		of_2d_parity_parameters_t prm; of_session_t *d = NULL;
		memset (&prm, 0, sizeof prm); prm.nb_source_symbols = 4; prm.nb_repair_symbols = 4; prm.encoding_symbol_length = 8;
		s = NULL;
		if (of_create_codec_instance (&s, OF_CODEC_2D_PARITY_MATRIX_STABLE, OF_ENCODER, 0) == OF_STATUS_OK && s) {
			if (of_set_fec_parameters (s, (of_parameters_t *) &prm) == OF_STATUS_OK) for (i = 4; i < 8; i++) of_build_repair_symbol (s, tab, (UINT32) i);
			of_release_codec_instance (s);
		}
		if (of_create_codec_instance (&d, OF_CODEC_2D_PARITY_MATRIX_STABLE, OF_DECODER, 0) == OF_STATUS_OK && d) {
			if (of_set_fec_parameters (d, (of_parameters_t *) &prm) == OF_STATUS_OK) { void *t[4] = {0}; for (i = 1; i < 8; i++) of_decode_with_new_symbol (d, sym[i], (UINT32) i); of_finish_decoding (d); of_get_source_symbols_tab (d, t); of_release_codec_instance (d); if (t[0] && t[0] != sym[0]) free (t[0]); }
			else of_release_codec_instance (d);
		}
		break; }
	default: {	/* an LDPC session left OPEN for the rest of the process (leaked on purpose), with an even N1 */
		s = open_ses (3, 0, 6, 8, 4, 5, 8, OF_ENCODER, &rej);
		break; }
	}
}

static void hist_desc (long seq, char *out, size_t sz)
{
	size_t l = (size_t) snprintf (out, sz, "hist fam=%d alpha=%d len=%d seq=%ld codes=", g_hfam, g_halpha, g_hlen, seq);
	int i; long x = seq;
	for (i = 0; i < g_hlen && l + 4 < sz; i++) { l += (size_t) snprintf (out + l, sz - l, "%d", (int) (x % g_halpha)); x /= g_halpha; }
}
static void hist_body (long seq, void *arg)
{
	of_session_t *prev = NULL;
	int i, prev_c = -1, prev_type = 0; long x = seq;
	int overlap = (int) (seq & 1);
	char sig[160];
	(void) arg;
	for (i = 0; i < g_hlen; i++) {
		int c = (int) (x % g_halpha), rej = 0, type = (i & 1) ? OF_DECODER : OF_ENCODER;
		const hc_t *h;
		const bitmat *Hr;
		of_session_t *s;
		bool isnull = false;
		x /= g_halpha;
		if (g_hfam == 2 && c >= 3) { hist_activity (c - 3); continue; }
		h = g_hfam == 2 ? &HC2[c] : &HC[c]; Hr = g_hfam == 2 ? HREF2[c] : HREF[c];
		s = open_ses (3, 0, h->k, h->r, h->N1, h->seed, 8, type, &rej);
		vf_stat_add (st_trans, 1);
		if (!s) { snprintf (sig, sizeof sig, "hist|kind=valid-configuration-rejected|position=%d|code=%d", i, c); viol ("C05", sig); break; }
		if (of_get_control_parameter (s, OF_CRTL_LDPC_STAIRCASE_IS_LAST_SYMBOL_NULL, &isnull, sizeof isnull) != OF_STATUS_OK) viol ("C15", "hist|kind=control-parameter-query-failed");
		else if (NULLBASE && NULLBASE[(g_hfam == 2 ? 10 : 0) + c * 2 + (type == OF_DECODER)] >= 0 && (isnull ? 1 : 0) != NULLBASE[(g_hfam == 2 ? 10 : 0) + c * 2 + (type == OF_DECODER)]) {
			snprintf (sig, sizeof sig, "hist|kind=last-symbol-null-answer-depends-on-history|session=%s|code=%d", type == OF_DECODER ? "decoder" : "encoder", c); viol ("C15", sig);
		}
		if (!sparse_equals_ref (((of_ldpc_staircase_cb_t *) s)->pchk_matrix, Hr, h->k, h->r, (type == OF_DECODER && isnull) ? 1 : 0)) {
			snprintf (sig, sizeof sig, "hist|kind=pchk-differs-from-rfc5170|session=%s|position=%d|code=%d", type == OF_DECODER ? "decoder" : "encoder", i, c);
			viol ("C05", sig);
		}
		if (prev) {	/* the session opened before this one is asked again now that another one has been configured */
			bool again = false;
			if (prev_c >= 0 && NULLBASE && NULLBASE[(g_hfam == 2 ? 10 : 0) + prev_c * 2 + (prev_type == OF_DECODER)] >= 0
			    && of_get_control_parameter (prev, OF_CRTL_LDPC_STAIRCASE_IS_LAST_SYMBOL_NULL, &again, sizeof again) == OF_STATUS_OK
			    && (again ? 1 : 0) != NULLBASE[(g_hfam == 2 ? 10 : 0) + prev_c * 2 + (prev_type == OF_DECODER)]) {
				snprintf (sig, sizeof sig, "hist|kind=last-symbol-null-answer-changed-by-a-later-session|session=%s|code=%d", prev_type == OF_DECODER ? "decoder" : "encoder", prev_c); viol ("C15", sig);
			}
			of_release_codec_instance (prev); prev = NULL;
		}
		if (overlap) { prev = s; prev_c = c; prev_type = type; } else of_release_codec_instance (s);
	}
	if (prev) of_release_codec_instance (prev);
}
/* the answers of a pristine process, one child per (family, code, role) */
static void nullbase_child (long it, void *arg)
{
	int fam2 = it >= 10, c = (int) ((it % 10) / 2), type = (it & 1) ? OF_DECODER : OF_ENCODER, rej = 0;
	const hc_t *h = fam2 ? &HC2[c] : &HC[c];
	of_session_t *s;
	bool isnull = false;
	(void) arg;
	if (fam2 && c >= 3) return;
	s = open_ses (3, 0, h->k, h->r, h->N1, h->seed, 8, type, &rej);
	if (s && of_get_control_parameter (s, OF_CRTL_LDPC_STAIRCASE_IS_LAST_SYMBOL_NULL, &isnull, sizeof isnull) == OF_STATUS_OK) NULLBASE[it] = isnull ? 1 : 0;
}
static void hist_setup (void)
{
	int c; long it;
	if (HREF[0]) return;
	for (c = 0; c < 5; c++) HREF[c] = rfc5170_H (HC[c].k, HC[c].k + HC[c].r, HC[c].N1, (uint64_t) HC[c].seed, NULL);
	for (c = 0; c < 3; c++) HREF2[c] = rfc5170_H (HC2[c].k, HC2[c].k + HC2[c].r, HC2[c].N1, (uint64_t) HC2[c].seed, NULL);
	NULLBASE = mmap (NULL, 64, PROT_READ | PROT_WRITE, MAP_SHARED | MAP_ANONYMOUS, -1, 0);
	memset (NULLBASE, 0xFF, 64);
	for (it = 0; it < 16; it++) vf_run_isolated (nullbase_child, it, NULL, 60, NULL, NULL, 0);
}
static void hist_item (long it, void *arg)
{
	char ak[64], af[128];
	int rc;
	(void) arg;
	vf_slot_set_prop ("C05");
	hist_desc (it, g_case, sizeof g_case);
	memcpy (vf_slot (), g_case, sizeof g_case);
	rc = vf_run_isolated (hist_body, it, NULL, 120, ak, af, sizeof ak);
	if (rc != 0) { char sig[200]; snprintf (sig, sizeof sig, "hist|kind=%s%s|func=%s", rc == -1 ? "hang" : "crash", ak[0] ? ":" : "", ak[0] ? af : "?"); viol ("C05", sig); }
	vf_stat_add (st_points, 1);
	vf_stat_add (st_states, 1);
}

static void item (long it, void *arg)
{
	(void) arg;
	vf_slot_set_prop (PROP);
	if (vf_deadline_hit ()) { static int said; if (!said) { said = 1; vf_incomplete ("deadline reached at point %ld of %ld", it, NPT); } return; }
	if (PT[it].slotmode == 7 && PT[it].codec == 2) rsseq_point (&PT[it]); else if (PT[it].slotmode == 8) refmds_point (&PT[it]); else if (PT[it].slotmode >= 9) both_point (&PT[it]); else if (PT[it].codec == 5) p2d_point (&PT[it]); else if (PT[it].codec == 3) ldpc_point (&PT[it]); else rs_point (&PT[it]);
	vf_stat_add (st_states, 1);
}

static void item_replay (long it, void *arg)
{
	pt_t p;
	const char *cs = vf_replay_case ();
	(void) it; (void) arg;
	vf_slot_set_prop (PROP);
	memset (&p, 0, sizeof p);
	if (sscanf (cs, "rs codec=%d m=%d k=%d n=%d len=%d align=%d", &p.codec, &p.m, &p.k, &p.n, &p.len, &p.prefix) >= 5) { p.r = p.n - p.k; rs_point (&p); }
	else if (sscanf (cs, "rsseq k=%d r=%d order=%d", &p.k, &p.r, &p.prefix) == 3) { p.codec = 2; p.m = 4; p.n = p.k + p.r; p.len = p.k + 4; p.slotmode = 7; rsseq_point (&p); }
	else if (sscanf (cs, "ldpc k=%d r=%d N1=%d seed=%d len=%d prefix=%d align=%d", &p.k, &p.r, &p.N1, &p.seed, &p.len, &p.prefix, &p.slotmode) >= 6) { p.codec = 3; p.n = p.k + p.r; ldpc_point (&p); }
	else if (sscanf (cs, "both codec=%d m=%d k=%d r=%d N1=%d seed=%d len=%d lost=%d", &p.codec, &p.m, &p.k, &p.r, &p.N1, &p.seed, &p.len, &p.prefix) == 8) { int b = 0; const char *q = strstr (cs, " built="); if (q) b = atoi (q + 7); p.n = p.k + p.r; p.slotmode = 9 + b; both_point (&p); }
	else if (!strncmp (cs, "hist ", 5)) {
		long seq; int c;
		if (sscanf (cs, "hist fam=%d alpha=%d len=%d seq=%ld", &g_hfam, &g_halpha, &g_hlen, &seq) == 4) { hist_setup (); hist_item (seq, NULL); }
	}
	else if (sscanf (cs, "2d k=%d r=%d len=%d", &p.k, &p.r, &p.len) >= 2) { p.codec = 5; p.n = p.k + p.r; p2d_point (&p); }
	else vf_viol ("MACHINERY", "kind=bad-replay-case", "%s", cs);
}

int main (int argc, char **argv)
{
	const char *mode;
	int thorough, k, n, r, N1, s, pf;
	vf_init (argc, argv);
	PROP = vf_prop ();
	thorough = vf_tier_thorough ();
	mode = vf_opt ("mode", "rs");
	st_states = vf_stat_id ("states"); st_trans = vf_stat_id ("transitions"); st_exec = vf_stat_id ("executions"); st_dn = vf_stat_id ("distinct_nontrivial");
	st_points = vf_stat_id ("points"); st_nullclaims = vf_stat_id ("null_last_claims"); st_prefixes = vf_stat_id ("pollution_prefixes_run");
	if (vf_replay_case ()) { vf_pool_run (1, item_replay, NULL, 900); vf_finish (); return 0; }
	if (!strcmp (mode, "rs")) {
		static const int lens[] = {1, 2, 3, 4, 5, 6, 7, 8, 9, 10, 11, 12, 13, 14, 15, 16, 17, 18, 19, 20, 21, 22, 23, 24, 25, 26, 27, 28, 29, 30, 31, 32, 33, 34, 35, 36, 37, 38, 39, 40, 64, 65, 1024};
		static const int kq[] = {1, 2, 3, 4, 5, 6, 7, 8, 9, 10, 11, 12, 13, 14, 15, 16, 17, 18, 19, 20, 21, 22, 23, 24, 25, 26, 27, 28, 29, 30, 31, 32, 64, 127, 128, 200, 223, 254};
		int i, codec;
		for (n = 2; n <= 15; n++) for (k = 1; k < n; k++) add_pt (2, 4, k, n - k, 0, 0, (k + 1) / 2 + 4, 0);
		for (codec = 1; codec <= 2; codec++) {
			if (thorough) { for (k = 1; k <= 254; k++) { add_pt (codec, 8, k, 255 - k, 0, 0, k + 4, 0); if (k < 254) add_pt (codec, 8, k, 1, 0, 0, k + 4, 0); } }
			else for (i = 0; i < (int) (sizeof kq / sizeof kq[0]); i++) { k = kq[i]; add_pt (codec, 8, k, 255 - k, 0, 0, k + 4, 0); if (k < 254) add_pt (codec, 8, k, 1, 0, 0, k + 4, 0); }
			for (n = 2; n <= (thorough ? 24 : 12); n++) for (k = 1; k < n; k++) add_pt (codec, 8, k, n - k, 0, 0, k + 4, 0);
		}
		for (codec = 1; codec <= 2; codec++) {	/* mid-range sweep: EVERY k with a number of repair symbols well inside the range (derived from k), and the k == n-k diagonal */
			for (k = 1; k <= 252; k++) { int r = 2 + (k * 11) % (253 - k); add_pt (codec, 8, k, r, 0, 0, k + 4, 0); if (k <= 127 && (thorough || k % 2 == codec % 2)) add_pt (codec, 8, k, k, 0, 0, k + 4, 0); }
		}
		{	/* every symbol length 41..2100 (thorough ..4200) on small codes, codec / alignment rotating with the length */
			int L;
			for (L = 41; L <= (thorough ? 4200 : 2100); L++) {
				int al = (L / 3) % 4 == 0 ? 0 : (L / 3) % 8;
				if (thorough || L % 3 == 0) add_pt (1, 8, 5, 4, 0, 0, L, al);
				if (thorough || L % 3 == 1) add_pt (2, 8, 5, 4, 0, 0, L, al);
				if (thorough || L % 3 == 2) add_pt (2, 4, 5, 4, 0, 0, L, al);
			}
		}
		{ int o; for (n = 2; n <= 15; n++) for (k = 1; k < n; k++) for (o = 0; o < 4; o++) { if (!thorough && n > 9 && (n + k + o) % 3) continue; add_pt (2, 4, k, n - k, 0, 0, k + 4, o); PT[NPT - 1].slotmode = 7; } }	/* field / codec switches with equal (k, n-k) */
		for (k = 1; k <= 14; k++) { add_pt (2, 4, k, 15 - k, 0, 0, 8, 0); PT[NPT - 1].slotmode = 8; }	/* every k x k minor of the m=4 reference generator is non-singular */
		{	/* short symbols at every buffer alignment (encoder side of C07/C06) */
			int L, al;
			for (L = 1; L <= 24; L++) for (al = 1; al < 8; al++) { add_pt (1, 8, 3, 2, 0, 0, L, al); add_pt (2, 8, 3, 2, 0, 0, L, al); add_pt (2, 4, 3, 2, 0, 0, L, al); add_pt (2, 4, 7, 8, 0, 0, L, al); }
		}
		{	/* long symbols (cache-blocked / sliced encoders, 16-bit length fields): powers of two and neighbours up to 64 KiB */
			int li, al;
			for (li = 0; li < NLONGLENS; li++) for (al = 0; al <= 3; al += 3) {
				if (LONGLENS[li] > 20000 && al) continue;
				add_pt (1, 8, 5, 4, 0, 0, LONGLENS[li], al); add_pt (2, 8, 5, 4, 0, 0, LONGLENS[li], al); add_pt (2, 4, 5, 4, 0, 0, LONGLENS[li], al);
				if (thorough) { add_pt (1, 8, 200, 55, 0, 0, LONGLENS[li] < 4000 ? LONGLENS[li] : 700, al); add_pt (2, 8, 40, 3, 0, 0, LONGLENS[li], al); }
			}
		}
		for (i = 0; i < (int) (sizeof lens / sizeof lens[0]); i++) { add_pt (1, 8, 5, 4, 0, 0, lens[i], 0); add_pt (2, 8, 5, 4, 0, 0, lens[i], 0); add_pt (2, 4, 5, 4, 0, 0, lens[i], 0); add_pt (2, 4, 14, 1, 0, 0, lens[i], 0); add_pt (1, 8, 17, 3, 0, 0, lens[i], 0); }
	} else if (!strcmp (mode, "both")) {
		int lost, codec;
		int bv;
		for (bv = 0; bv <= 4; bv++) {
			for (codec = 1; codec <= 2; codec++) for (k = 1; k <= 6; k++) for (r = 1; r <= 4; r++) for (lost = 0; lost <= r && lost <= k; lost++) { add_pt (codec, 8, k, r, 0, 0, k + 3, lost); PT[NPT - 1].slotmode = 9 + bv; if (codec == 2) { add_pt (2, 4, k, r, 0, 0, k + 3, lost); PT[NPT - 1].slotmode = 9 + bv; } }
			if (bv == 1 || bv == 4) continue;	/* LDPC needs the previous repair symbol: all / none / the first one only */
			for (k = 2; k <= 8; k++) for (r = 3; r <= 6; r++) for (N1 = 3; N1 <= r && N1 <= 5; N1++) for (lost = 0; lost <= 3; lost++) { add_pt (3, 0, k, r, N1, 1 + (k + r) % 3, k + 3, lost == 3 ? 9 : lost); PT[NPT - 1].slotmode = 9 + bv; }
		}
	} else if (!strcmp (mode, "2d")) {
		for (k = 0; k <= 17; k++) for (r = 0; r <= 26; r++) add_pt (5, 0, k, r, 0, 0, k + 2, 0);
		{	/* every accepted pair again with long symbols */
			static const int L2[] = {100, 127, 128, 129, 255, 256, 257, 1000, 4096, 65536};
			int li;
			for (k = 1; k <= 16; k++) for (r = 1; r <= 12; r++) for (li = 0; li < 10; li++) if (thorough || li % 3 == (k + r) % 3 || L2[li] == 128 || L2[li] == 256) add_pt (5, 0, k, r, 0, 0, L2[li], 0);
		}
	} else {
		static const int kt[] = {1, 2, 3, 4, 5, 6, 7, 8, 9, 10, 11, 12, 16, 20, 32, 50, 100, 255, 1000}, rt[] = {3, 4, 5, 6, 7, 8, 9, 10, 11, 12, 16, 32, 100, 500};
		static const int seeds_t[] = {1, 2, 3, 1000, 16807, 2147483645, 2147483646}, seeds_q[] = {1, 2, 2147483646};
		int ki, ri, si;
		int c15 = !strcmp (PROP, "C15");
		if (c15) {
			int kmax = thorough ? 32 : 12, rmax = thorough ? 16 : 10, smax = thorough ? 50 : 5;
			for (k = 1; k <= kmax; k++) for (r = 3; r <= rmax; r++) for (N1 = 3; N1 <= r && N1 <= 10; N1++) {
				for (s = 1; s <= smax; s++) add_pt (3, 0, k, r, N1, s, k + 2, 0);
				if (thorough) { add_pt (3, 0, k, r, N1, 16807, k + 2, 0); add_pt (3, 0, k, r, N1, 2147483646, k + 2, 0); }
			}
			/* low code rates with many rows: extra entries by the hundred (every r in a range, so that counts such as 256 are hit) */
			for (k = 3; k <= 8; k++) for (N1 = 4; N1 <= 6; N1 += 2) for (r = (thorough ? 100 : 120); r <= (thorough ? 600 : 290); r++) add_pt (3, 0, k, r, N1, 1, k + 2, 0);
			add_pt (3, 0, 56, 200, 4, 1, 58, 0); add_pt (3, 0, 100, 300, 6, 1, 102, 0); add_pt (3, 0, 100, 328, 4, 1, 102, 0); add_pt (3, 0, 128, 384, 4, 2, 130, 0); add_pt (3, 0, 200, 800, 6, 1, 202, 0);
			{	/* the number of extra entries (2(n-k) - N1*k for low rates) next to 2^8, 2^9, 2^10 and 2^16: counters of every width */
				static const int EX[] = {254, 255, 256, 257, 258, 510, 511, 512, 513, 514, 768, 1024, 65534, 65536, 65538};
				int ei;
				for (N1 = 4; N1 <= 6; N1 += 2) for (k = 2; k <= 5; k++) for (ei = 0; ei < (int) (sizeof EX / sizeof EX[0]); ei++) {
					if ((EX[ei] + N1 * k) & 1) continue;
					if (EX[ei] > 60000 && !(k == 4 && N1 == 4) && !(k == 3 && N1 == 6)) continue;
					add_pt (3, 0, k, (EX[ei] + N1 * k) / 2, N1, 1 + ei % 3, k + 2, 0);
				}
			}
			/* mid-range sweep: every k of a range with rates, N1 and seeds derived from k (even and odd N1 alternate) */
			for (k = 13; k <= (thorough ? 1500 : 500); k++) {
				unsigned sd = (unsigned) (((unsigned long long) k * 1103515245ull + 12345ull) % 2147483646ull) + 1u;
				r = 3 + (k * 7) % 61; N1 = 3 + k % 8; if (N1 > r) N1 = r; add_pt (3, 0, k, r, N1, (int) sd, k + 2, 0);
				r = k / 2 + k % 7; N1 = 3 + (k / 8) % 8; if (N1 > r) N1 = r; add_pt (3, 0, k, r, N1, (int) sd + 1, k + 2, 0);
				if (k % 3 == 0) { add_pt (3, 0, k, k, 4 + 2 * (k % 4), (int) sd + 2, k + 2, 0); }
			}
			for (N1 = 11; N1 <= 40; N1++) { add_pt (3, 0, 30 + N1, 40, N1, 77 + N1, 32 + N1, 0); add_pt (3, 0, 7, N1 + (N1 & 1), N1, 5, 9, 0); }
			/* higher code rates: the claim is 'often' true there */
			for (k = 30; k <= (thorough ? 400 : 120); k += (thorough ? 37 : 45)) for (r = 4; r <= 40; r += 9) for (N1 = 3; N1 <= 6 && N1 <= r; N1++) for (s = 1; s <= 3; s++) add_pt (3, 0, k, r, N1, s, k + 2, 0);
		} else {
			for (ki = 0; ki < (int) (sizeof kt / sizeof kt[0]); ki++) for (ri = 0; ri < (int) (sizeof rt / sizeof rt[0]); ri++) {
				k = kt[ki]; r = rt[ri];
				if (!thorough && (k > 32 || r > 32) && !((k == 100 && r == 32) || (k == 255 && r == 100) || (k == 1000 && r == 500))) continue;
				for (N1 = 3; N1 <= r && N1 <= 10; N1++) {
					if ((k > 32 || r > 32) && N1 > 5) continue;
					for (si = 0; si < (thorough ? 7 : 3); si++)
						for (pf = 0; pf < NPREFIX; pf++) {
							if ((k > 100 || r > 100) && pf > 1) continue;
							add_pt (3, 0, k, r, N1, thorough ? seeds_t[si] : seeds_q[si], k + 2, pf);
						}
				}
			}
			if (thorough) {	/* many seeds on the small shapes: 'depends only on (k,n,N1,seed)' for seeds the fixed list does not contain */
				int sd;
				for (k = 1; k <= 12; k++) for (r = 3; r <= 12; r++) for (N1 = 3; N1 <= r && N1 <= 7; N1++) for (sd = 4; sd <= 120; sd++) add_pt (3, 0, k, r, N1, sd * 7 + (sd & 3), k + 2, sd % NPREFIX);
			}
			{	/* symbol lengths x buffer alignments on two small codes (encoder side of C07 / C06) */
				int L, al2;
				for (L = 1; L <= 40; L++) for (al2 = 1; al2 < 8; al2++) { add_pt (3, 0, 4, 4, 3, 1, L, 0); PT[NPT - 1].slotmode = al2; add_pt (3, 0, 9, 5, 4, 2, L, 0); PT[NPT - 1].slotmode = al2; }
			}
			{	/* long symbols on two codes, aligned and misaligned application buffers */
				int li;
				for (li = 0; li < NLONGLENS; li++) {
					add_pt (3, 0, 9, 5, 4, 2, LONGLENS[li], 0);
					if (LONGLENS[li] <= 20000) { add_pt (3, 0, 9, 5, 4, 2, LONGLENS[li], 0); PT[NPT - 1].slotmode = 5; add_pt (3, 0, 40, 20, 5, 123, LONGLENS[li], 0); }
				}
			}
			{	/* mid-range sweep: EVERY k of a range (neither small nor next to a limit or a power of two), with code rates,
				 * N1 and seeds derived from k so that arithmetic coincidences (k == r, N1 == r, r | k, k | r*N1 ...) occur on the way;
				 * plus every N1 up to 40 on a few shapes (the grid above stops at 10) */
				int kmax = thorough ? 3000 : 800, j;
				for (k = 13; k <= kmax; k++) {
					int rr[4]; unsigned sd = (unsigned) (((unsigned long long) k * 1103515245ull + 12345ull) % 2147483646ull) + 1u;
					rr[0] = 3 + (k * 7) % 61; rr[1] = k / 2 + k % 7; rr[2] = k; rr[3] = 3 + k % 9;
					for (j = 0; j < 4; j++) {
						r = rr[j];
						if (j >= 2 && (k % 3) != j - 2) continue;	/* k == r and N1 == r points: a third of the k each */
						N1 = j == 3 ? r : 3 + (k + j) % 8; if (N1 > r) N1 = r;
						if ((long) k * (k + r) > 1500000 && !thorough) continue;
						add_pt (3, 0, k, r, N1, (int) (sd + (unsigned) j), k + 2, k % NPREFIX > 1 && k > 100 ? 0 : k % NPREFIX);
					}
				}
				for (N1 = 11; N1 <= 40; N1++) { add_pt (3, 0, 30 + N1, 40, N1, 77 + N1, 32 + N1, 0); add_pt (3, 0, 7, N1 + (N1 & 1), N1, 5, 9, 0); add_pt (3, 0, 211, 45 + N1, N1, 1000 + N1, 213, 0); }
			}
			/* very large blocks draw with large maxv (up to N1*k = 140000): many seeds, structural comparison only.
			 * Reached by no test; a PRNG scaling that differs from the RFC expression in the last unit shows here. */
			for (s = 1; s <= (thorough ? 40 : 6); s++) {
				add_pt (3, 0, 20000, 10000, 7, s * 7919 % 1000 + s, 8, 0);
				add_pt (3, 0, 10000, 5000, 3 + s % 3, s + 1000, 8, 0);
				if (thorough || s <= 3) add_pt (3, 0, 1000, 500, 5 + s % 3, s * 31 + 100, 1002, 0);
			}
		}
	}
	if (!strcmp (mode, "hist")) {
		long nseq = 1, nseq2 = 1; int i;
		g_hfam = 0; g_halpha = thorough ? 5 : 4; g_hlen = thorough ? 7 : 6;
		hist_setup ();
		for (i = 0; i < g_hlen; i++) nseq *= g_halpha;
		vf_note ("mode hist, family 0: every sequence of %d sessions over %d codes (n = 9, 12, 4097, 4500%s): %ld processes", g_hlen, g_halpha, thorough ? ", 400" : "", nseq);
		vf_pool_run (nseq, hist_item, NULL, 0);
		g_hfam = 2; g_halpha = 3 + NACT; g_hlen = thorough ? 5 : 4;
		for (i = 0; i < g_hlen; i++) nseq2 *= g_halpha;
		vf_note ("mode hist, family 2: every sequence of %d steps over 3 measured LDPC codes and %d other activities (RS 2^8 / 2^m / 2D sessions, two rejected LDPC configurations, an ML decoding with displaced PRNG, a session left open): %ld processes", g_hlen, NACT, nseq2);
		vf_pool_run (nseq2, hist_item, NULL, 0);
		vf_outcome ("hist:sequences", nseq + nseq2);
		vf_stat_add (st_exec, vf_stat_get (st_trans));
		vf_stat_add (st_dn, vf_stat_get (st_points));
		vf_sample ("hist fam=0 alpha=4 len=6 seq=2730 codes=222222: six sessions of the n=4097 code in one process, alternately encoder and decoder: each matrix equals the RFC 5170 reference");
		vf_finish ();
		return 0;
	}
	vf_note ("mode %s: %ld points", mode, NPT);
	vf_pool_run (NPT, item, NULL, 0);
	vf_stat_add (st_exec, vf_stat_get (st_trans));
	vf_stat_add (st_dn, vf_stat_get (st_points));
	if (NPT) { pt_t *p = &PT[NPT / 2]; vf_sample ("point codec=%d m=%d k=%d r=%d N1=%d seed=%d len=%d prefix=%d: every repair ESI built in buffer and NULL-slot mode and compared with the reference", p->codec, p->m, p->k, p->r, p->N1, p->seed, p->len, p->prefix); }
	vf_finish ();
	return 0;
}
