/* h_kernel.c — C13: symbol kernels are exact for every length, operand count and alignment.
 * Complete enumeration: size x destination alignment x source alignment x operand count
 * (x every field constant for the multiply-accumulate kernels) x content patterns, against the
 * byte-wise definition. Every operand is an exact-size region ending at the end of its heap block
 * (ASan variant: any read or write beyond `size` is reported; plain variant: canaries around every
 * operand detect writes). of_addmul1 is static: reached by translation-unit inclusion. */
#include "vf.h"
#include "ref.h"
#include "lib_stable/reed-solomon_gf_2_8/of_reed-solomon_gf_2_8.c"
#include "lib_stable/reed-solomon_gf_2_m/of_reed-solomon_gf_2_m_includes.h"

extern void of_galois_field_2_8_addmul1 (gf *dst1, gf *src1, gf c, int sz);
extern void of_galois_field_2_4_addmul1 (gf *dst1, gf *src1, gf c, int sz);
extern void of_galois_field_2_4_addmul1_compact (gf *dst1, gf *src1, gf c, int sz);

#define MAXOPER 304
#define GUARD 24
static int st_states, st_trans, st_exec, st_dn;
static int SIZES[400], NSIZES;
static unsigned char MUL8[256][256], MUL4[16][16];

/* an operand: block = [GUARD canary][align pad][size bytes] and (plain variant) a second block for a tail canary */
typedef struct { unsigned char *blk, *p; int size, align; unsigned char *tail; } oper_t;

static void oper_new (oper_t *o, int size, int align)
{
	o->size = size; o->align = align;
	o->blk = malloc ((size_t) GUARD + (size_t) align + (size_t) size
#ifndef __SANITIZE_ADDRESS__
			 + GUARD
#endif
			);
	memset (o->blk, 0xC3, (size_t) GUARD + (size_t) align);
	o->p = o->blk + GUARD + align;
#ifndef __SANITIZE_ADDRESS__
	memset (o->p + size, 0x3C, GUARD);
#endif
}
static int oper_guards_ok (oper_t *o)
{
	int i;
	for (i = 0; i < GUARD + o->align; i++) if (o->blk[i] != 0xC3) return 0;
#ifndef __SANITIZE_ADDRESS__
	for (i = 0; i < GUARD; i++) if (o->p[o->size + i] != 0x3C) return 0;
#endif
	return 1;
}
static void oper_free (oper_t *o) { free (o->blk); }

static unsigned char pat (int which, int operand, int j, int size)
{
	/* not periodic in j: a block read from the wrong multiple of 128 / 256 / 4096 bytes must show */
	if (which == 0) return (unsigned char) (j * 37 + (j >> 7) * 91 + (j >> 12) * 7 + operand * 101 + size * 3 + 11);
	if (which == 1) return (unsigned char) ~(j * 37 + (j >> 7) * 91 + (j >> 12) * 7 + operand * 101 + size * 3 + 11);
	return (unsigned char) (j + which);	/* rotations: every byte value at every position class */
}

static void report (const char *fn, const char *kind, int size, int da, int sa, int cnt, int c, int pt)
{
	char sig[128];
	snprintf (sig, sizeof sig, "fn=%s|kind=%s|size%%16=%d|count%%8=%d", fn, kind, size % 16, cnt % 8);
	vf_viol ("C13", sig, "fn=%s size=%d dalign=%d salign=%d count=%d c=%d pat=%d", fn, size, da, sa, cnt, c, pt);
}

/* fnid: 0 add_to_symbol, 1 add_from_multiple, 2 add_to_multiple, 3 of_addmul1, 4 gf_2_8_addmul1, 5 gf_2_4_addmul1, 6 gf_2_4_addmul1_compact */
static const char *FN[] = {"of_add_to_symbol", "of_add_from_multiple_symbols", "of_add_to_multiple_symbols", "of_addmul1", "of_galois_field_2_8_addmul1", "of_galois_field_2_4_addmul1", "of_galois_field_2_4_addmul1_compact"};

static void one_case (int fnid, int size, int da, int sa, int cnt, int c, int pt)
{
	static oper_t D[MAXOPER], Sx[MAXOPER];
	static unsigned char *want[MAXOPER], *s0[MAXOPER];
	static int bufsz[MAXOPER];
	void *ptrs[MAXOPER];
	int nd = fnid == 2 ? cnt : 1, ns = fnid == 1 ? cnt : 1, i, j;
	snprintf (vf_slot (), VF_SLOT_LEN, "fn=%s size=%d dalign=%d salign=%d count=%d c=%d pat=%d", FN[fnid], size, da, sa, cnt, c, pt);
	for (i = 0; i < (nd > ns ? nd : ns); i++)
		if (bufsz[i] < size + 1) { bufsz[i] = size < 1100 ? 1100 : size + 1; free (want[i]); free (s0[i]); want[i] = malloc ((size_t) bufsz[i]); s0[i] = malloc ((size_t) bufsz[i]); }
	for (i = 0; i < nd; i++) { oper_new (&D[i], size, da); for (j = 0; j < size; j++) D[i].p[j] = pat (pt, 40 + i, j, size); if (fnid == 5) for (j = 0; j < size; j++) D[i].p[j] &= 15; }
	for (i = 0; i < ns; i++) { oper_new (&Sx[i], size, sa); for (j = 0; j < size; j++) Sx[i].p[j] = pat (pt, i, j, size); if (fnid == 5) for (j = 0; j < size; j++) Sx[i].p[j] &= 15; memcpy (s0[i], Sx[i].p, (size_t) size); }
	/* expected */
	for (i = 0; i < nd; i++) {
		memcpy (want[i], D[i].p, (size_t) size);
		for (j = 0; j < size; j++) {
			int q;
			switch (fnid) {
			case 0: case 2: want[i][j] ^= Sx[0].p[j]; break;
			case 1: for (q = 0; q < ns; q++) want[i][j] ^= Sx[q].p[j]; break;
			case 3: case 4: want[i][j] ^= MUL8[c][Sx[0].p[j]]; break;
			case 5: want[i][j] ^= MUL4[c][Sx[0].p[j] & 15]; break;
			case 6: want[i][j] ^= (unsigned char) ((MUL4[c][Sx[0].p[j] >> 4] << 4) | MUL4[c][Sx[0].p[j] & 15]); break;
			}
		}
	}
	switch (fnid) {
	case 0: of_add_to_symbol (D[0].p, Sx[0].p, (UINT32) size); break;
	case 1: for (i = 0; i < ns; i++) ptrs[i] = Sx[i].p; of_add_from_multiple_symbols (D[0].p, (const void **) ptrs, (UINT32) ns, (UINT32) size); break;
	case 2: for (i = 0; i < nd; i++) ptrs[i] = D[i].p; of_add_to_multiple_symbols (ptrs, Sx[0].p, (UINT32) nd, (UINT32) size); break;
	case 3: of_addmul1 (D[0].p, Sx[0].p, (gf) c, size); break;
	case 4: of_galois_field_2_8_addmul1 (D[0].p, Sx[0].p, (gf) c, size); break;
	case 5: of_galois_field_2_4_addmul1 (D[0].p, Sx[0].p, (gf) c, size); break;
	case 6: of_galois_field_2_4_addmul1_compact (D[0].p, Sx[0].p, (gf) c, size); break;
	}
	for (i = 0; i < nd; i++) {
		if (memcmp (D[i].p, want[i], (size_t) size)) report (FN[fnid], "wrong-result", size, da, sa, cnt, c, pt);
		if (!oper_guards_ok (&D[i])) report (FN[fnid], "wrote-outside-destination", size, da, sa, cnt, c, pt);
	}
	for (i = 0; i < ns; i++) {
		if (memcmp (Sx[i].p, s0[i], (size_t) size)) report (FN[fnid], "source-modified", size, da, sa, cnt, c, pt);
		if (!oper_guards_ok (&Sx[i])) report (FN[fnid], "wrote-outside-source", size, da, sa, cnt, c, pt);
	}
	for (i = 0; i < nd; i++) oper_free (&D[i]);
	for (i = 0; i < ns; i++) oper_free (&Sx[i]);
}

static int g_maxcount = 20, g_thorough;
static void item (long it, void *arg)
{
	int size = SIZES[it], da, sa, cnt, c, pt, npat = size >= 256 && size <= 272 ? 18 : 2;
	long n = 0;
	(void) arg;
	vf_slot_set_prop ("C13");
	for (da = 0; da < 8; da++) for (sa = 0; sa < 8; sa++) for (pt = 0; pt < npat; pt++) {
		if (size > 300 && ((da + sa) & 1)) continue;	/* very long symbols: half of the alignment pairs */
		one_case (0, size, da, sa, 1, 0, pt); n++;
		for (cnt = 0; cnt <= g_maxcount; cnt++) {
			if (size > 100 && pt > 1) break;
			one_case (1, size, da, sa, cnt, 0, pt); one_case (2, size, da, sa, cnt, 0, pt); n += 2;
		}
		for (c = 0; c < 256; c++) {
			if (size > 300 && (c % 17) && c != 255) continue;
			if (pt > 1 && (da || sa)) continue;	/* the all-byte-values rotations: alignment (0,0) only */
			one_case (3, size, da, sa, 1, c, pt); one_case (4, size, da, sa, 1, c, pt); n += 2;
			if (c < 16) { one_case (5, size, da, sa, 1, c, pt); one_case (6, size, da, sa, 1, c, pt); n += 2; }
		}
	}
	vf_stat_add (st_trans, n);
	vf_stat_add (st_states, 1);
}

/* long symbols and many operands: the regime of cache-blocked loops, wide unrolling and small counters.
 * item = index into LONGS (sizes) or, beyond, into MANY (operand counts) */
static int LONGS[320], NLONGS, MANY[64], NMANY;
static void item_long (long it, void *arg)
{
	static const int AL[][2] = {{0, 0}, {1, 0}, {0, 1}, {3, 5}, {7, 7}, {4, 4}, {0, 4}, {6, 2}};
	static const int CN[] = {0, 1, 2, 3, 4, 5, 7, 8, 9, 15, 16, 17, 20};
	static const int CS[] = {0, 1, 2, 3, 0x53, 0x80, 0xff};
	long n = 0;
	int a, q, pt;
	(void) arg;
	vf_slot_set_prop ("C13");
	if (it < NLONGS) {
		int size = LONGS[it];
		for (a = 0; a < 8; a++) for (pt = 0; pt < 2; pt++) {
			int da = AL[a][0], sa = AL[a][1];
			if (size > 20000 && a >= 4 && pt) continue;
			one_case (0, size, da, sa, 1, 0, pt); n++;
			for (q = 0; q < (int) (sizeof CN / sizeof CN[0]); q++) {
				if (size > 20000 && CN[q] > 9 && CN[q] != 16) continue;
				one_case (1, size, da, sa, CN[q], 0, pt); one_case (2, size, da, sa, CN[q], 0, pt); n += 2;
			}
			for (q = 0; q < (int) (sizeof CS / sizeof CS[0]); q++) {
				one_case (3, size, da, sa, 1, CS[q], pt); one_case (4, size, da, sa, 1, CS[q], pt); n += 2;
				one_case (5, size, da, sa, 1, CS[q] & 15, pt); one_case (6, size, da, sa, 1, CS[q] & 15, pt); n += 2;
			}
		}
	} else {
		static const int SZ[] = {0, 1, 7, 8, 9, 16, 33, 64, 100, 129};
		int cnt = MANY[it - NLONGS];
		for (q = 0; q < (int) (sizeof SZ / sizeof SZ[0]); q++) for (a = 0; a < 4; a++) for (pt = 0; pt < 2; pt++) {
			one_case (1, SZ[q], AL[a][0], AL[a][1], cnt, 0, pt); one_case (2, SZ[q], AL[a][0], AL[a][1], cnt, 0, pt); n += 2;
		}
	}
	vf_stat_add (st_trans, n);
	vf_stat_add (st_states, 1);
}

/* contiguous sweep: EVERY size of a range (mid-range values, neither small nor next to a power of two: 1316, 1472, ...)
 * on a light set of alignments / operand counts / constants. item = size - SWEEP_LO */
static int SWEEP_LO = 273, SWEEP_HI;
static void item_sweep (long it, void *arg)
{
	static const int AL[][2] = {{0, 0}, {3, 5}, {1, 0}};
	static const int CN[] = {1, 2, 3, 8, 17};
	static const int CS[] = {2, 0x53, 0xe1};
	int size = SWEEP_LO + (int) it, a, q;
	long n = 0;
	(void) arg;
	vf_slot_set_prop ("C13");
	for (a = 0; a < 3; a++) {
		int da = AL[a][0], sa = AL[a][1], pt = (size + a) & 1;
		one_case (0, size, da, sa, 1, 0, pt); n++;
		for (q = 0; q < 5; q++) { one_case (1, size, da, sa, CN[q], 0, pt); one_case (2, size, da, sa, CN[q], 0, pt); n += 2; }
		for (q = 0; q < 3; q++) {
			one_case (3, size, da, sa, 1, CS[q], pt); one_case (4, size, da, sa, 1, CS[q], pt);
			one_case (5, size, da, sa, 1, CS[q] & 15, pt); one_case (6, size, da, sa, 1, CS[q] & 15, pt); n += 4;
		}
	}
	vf_stat_add (st_trans, n);
	vf_stat_add (st_states, 1);
}

static void item_replay (long it, void *arg)
{
	char fn[64]; int size, da, sa, cnt, c, pt, f;
	(void) it; (void) arg;
	vf_slot_set_prop ("C13");
	if (sscanf (vf_replay_case (), "fn=%63s size=%d dalign=%d salign=%d count=%d c=%d pat=%d", fn, &size, &da, &sa, &cnt, &c, &pt) != 7) return;
	for (f = 0; f < 7; f++) if (!strcmp (fn, FN[f])) one_case (f, size, da, sa, cnt, c, pt);
}

int main (int argc, char **argv)
{
	int a, b, s;
	vf_init (argc, argv);
	g_thorough = vf_tier_thorough ();
	st_states = vf_stat_id ("states"); st_trans = vf_stat_id ("transitions"); st_exec = vf_stat_id ("executions"); st_dn = vf_stat_id ("distinct_nontrivial");
	for (a = 0; a < 256; a++) for (b = 0; b < 256; b++) MUL8[a][b] = (unsigned char) gfr_mul (8, (unsigned) a, (unsigned) b);
	for (a = 0; a < 16; a++) for (b = 0; b < 16; b++) MUL4[a][b] = (unsigned char) gfr_mul (4, (unsigned) a, (unsigned) b);
	of_rs_init ();
	for (s = 0; s <= 80; s++) SIZES[NSIZES++] = s;
	for (s = 256; s <= 272; s++) SIZES[NSIZES++] = s;
	if (g_thorough) { for (s = 81; s <= 255; s++) SIZES[NSIZES++] = s; for (s = 1024; s <= 1040; s++) SIZES[NSIZES++] = s; }
	{	/* long sizes: powers of two and neighbours up to 64 KiB, and a few in between */
		static const int base[] = {96, 100, 127, 128, 129, 191, 192, 193, 255, 383, 384, 385, 500, 1000, 1500, 3000, 5000, 10000, 70001};
		int e, d;
		if (!g_thorough) for (a = 81; a <= 255; a++) LONGS[NLONGS++] = a;	/* quick tier: the sizes the complete grid leaves to the thorough tier, on the reduced alignment / count / constant sets */
		for (a = 0; a < (int) (sizeof base / sizeof base[0]); a++) if (g_thorough || base[a] > 255 || base[a] < 81) LONGS[NLONGS++] = base[a];
		for (e = 9; e <= 16; e++) for (d = -1; d <= 1; d++) if (g_thorough || e <= 13 || e == 16) LONGS[NLONGS++] = (1 << e) + d;
		if (g_thorough) { LONGS[NLONGS++] = 131071; LONGS[NLONGS++] = 131072; LONGS[NLONGS++] = 131073; LONGS[NLONGS++] = 1 << 20; }
		for (a = 21; a <= 40; a++) MANY[NMANY++] = a;
		{ static const int m[] = {63, 64, 65, 127, 128, 129, 255, 256, 257, 300}; for (a = 0; a < 10; a++) MANY[NMANY++] = m[a]; }
	}
	if (vf_replay_case ()) { vf_pool_run (1, item_replay, NULL, 60); vf_finish (); return 0; }
	vf_pool_run (NSIZES, item, NULL, 0);
	vf_pool_run (NLONGS + NMANY, item_long, NULL, 0);
	SWEEP_HI = g_thorough ? 9000 : 2100;
	vf_pool_run (SWEEP_HI - SWEEP_LO + 1, item_sweep, NULL, 0);
	vf_stat_add (st_exec, vf_stat_get (st_trans));
	vf_stat_add (st_dn, vf_stat_get (st_trans));
	vf_sample ("of_add_from_multiple_symbols size=13 dalign=3 salign=5 count=11 pattern 0: result equals byte-wise XOR of 11 operands, guards intact");
	vf_sample ("of_galois_field_2_4_addmul1_compact size=7 c=9: every byte = (9*hi)<<4 | 9*lo XORed into the destination");
	vf_outcome ("sizes", NSIZES); vf_outcome ("long_sizes", NLONGS); vf_outcome ("large_operand_counts", NMANY); vf_outcome ("contiguous_sweep_sizes", SWEEP_HI - SWEEP_LO + 1); vf_outcome ("kernel_calls", vf_stat_get (st_trans));
	vf_finish ();
	return 0;
}
