/* h_param.c — C09: parameters and arguments are validated (accepted => usable, unusable => rejected).
 * --mode grid   cross product of (k, r, length, m | N1, seed) over 0, 1, each limit, limit+1 ... UINT32_MAX
 *               for codecs 1, 2, 3 and roles encoder / decoder / both. One tuple = one work item (a crash or
 *               a hang of of_set_fec_parameters is contained and reported with the tuple). Inside the advertised
 *               limits the call must return OK and the session must then encode and decode correctly;
 *               outside it must return an error status.
 * --mode args   every single-argument corruption (NULL session, ESI out of range, wrong role) of every entry
 *               point on valid sessions of each codec and role: error status (false for the bool query), and
 *               the session must afterwards still complete a normal encode / decode.                        */
#include "vf.h"
#include "ref.h"
#include "lib_common/of_openfec_api.h"
#include "lib_stable/reed-solomon_gf_2_8/of_reed-solomon_gf_2_8_includes.h"
#include "lib_stable/reed-solomon_gf_2_m/of_reed-solomon_gf_2_m_includes.h"
#include "lib_stable/ldpc_staircase/of_ldpc_includes.h"

int rand (void) { static int c; return c++; }

typedef struct { int codec, role; uint32_t k, r, len; uint32_t m; uint32_t N1; int64_t seed; int pre; } tup_t;	/* pre: field size set through of_set_control_parameter before configuring (codec 2), 0 = none */
static tup_t *TU; static long NTU, CAPTU;
static int st_states, st_trans, st_exec, st_dn, st_acc, st_rej, st_func;
static char g_case[VF_SLOT_LEN];
static void viol (const char *sig) { vf_viol ("C09", sig, "%s", g_case); }

static void add_tu (int codec, int role, uint32_t k, uint32_t r, uint32_t len, uint32_t m, uint32_t N1, int64_t seed)
{
	tup_t t = {codec, role, k, r, len, m, N1, seed, 0};
	if (NTU == CAPTU) { CAPTU = CAPTU ? CAPTU * 2 : 4096; TU = realloc (TU, sizeof (tup_t) * (size_t) CAPTU); }
	TU[NTU++] = t;
}
static uint32_t maxk (int codec, uint32_t m) { return codec == 1 ? 255 : codec == 2 ? (m == 4 ? 15 : 255) : 50000; }
static uint32_t maxn (int codec, uint32_t m) { return maxk (codec, m); }

/* the advertised limits (property statement) */
static const char *invalid_why (const tup_t *t)
{
	uint64_t n = (uint64_t) t->k + t->r;
	if (t->codec == 2 && t->m != 4 && t->m != 8) return "m";
	if (t->k == 0) return "k=0";
	if (t->k > maxk (t->codec, t->m)) return "k>MAX_K";
	if (t->r == 0) return "r=0";
	if (n > maxn (t->codec, t->m)) return "n>MAX_N";
	if (t->len == 0) return "len=0";
	if (t->codec == 3) {
		if (t->N1 < 3) return "N1<3";
		if (t->N1 > t->r) return "N1>r";
		if (t->seed < 1 || t->seed > 2147483646LL) return "seed";
	}
	return NULL;
}

static of_session_t *open_tuple (const tup_t *t, of_status_t *pst)
{
	of_session_t *s = NULL;
	of_codec_id_t id = t->codec == 1 ? OF_CODEC_REED_SOLOMON_GF_2_8_STABLE : t->codec == 2 ? OF_CODEC_REED_SOLOMON_GF_2_M_STABLE : OF_CODEC_LDPC_STAIRCASE_STABLE;
	*pst = of_create_codec_instance (&s, id, (of_codec_type_t) t->role, 0);
	if (*pst != OF_STATUS_OK || !s) return NULL;
	if (t->codec == 2 && t->pre) { UINT16 fm = (UINT16) t->pre; of_set_control_parameter (s, OF_RS_CTRL_SET_FIELD_SIZE, &fm, sizeof fm); }
	if (t->codec == 1) { of_rs_parameters_t p; memset (&p, 0, sizeof p); p.nb_source_symbols = t->k; p.nb_repair_symbols = t->r; p.encoding_symbol_length = t->len; *pst = of_set_fec_parameters (s, (of_parameters_t *) &p); }
	else if (t->codec == 2) { of_rs_2_m_parameters_t p; memset (&p, 0, sizeof p); p.nb_source_symbols = t->k; p.nb_repair_symbols = t->r; p.encoding_symbol_length = t->len; p.m = (UINT16) t->m; *pst = of_set_fec_parameters (s, (of_parameters_t *) &p); }
	else { of_ldpc_parameters_t p; memset (&p, 0, sizeof p); p.nb_source_symbols = t->k; p.nb_repair_symbols = t->r; p.encoding_symbol_length = t->len; p.prng_seed = (INT32) t->seed; p.N1 = (UINT8) t->N1; *pst = of_set_fec_parameters (s, (of_parameters_t *) &p); }
	return s;
}

/* encode with the session (or a twin encoder), decode with 0 and 1 loss on the session (or a twin decoder) */
static void functional_cycle (const tup_t *t, of_session_t *s)
{
	uint32_t k = t->k, n = t->k + t->r, len = t->len, i;
	unsigned char **sym;
	void **tab;
	of_session_t *enc = s, *dec = s;
	of_status_t st;
	tup_t tw = *t;
	int own_enc = 0, own_dec = 0, loss;
	if ((uint64_t) n * len > (160u << 20) || (len > 65537 && n > 4)) return;
	vf_stat_add (st_func, 1);
	sym = calloc (n, sizeof (void *)); tab = calloc (n, sizeof (void *));
	for (i = 0; i < n; i++) { uint32_t j; sym[i] = malloc (len); for (j = 0; j < len; j++) sym[i][j] = i < k ? (unsigned char) (vf_mix64 ((uint64_t) i * 1315423911u + j) >> 7) : 0; tab[i] = sym[i]; }
	if (!(t->role & OF_ENCODER)) { tw.role = OF_ENCODER; enc = open_tuple (&tw, &st); own_enc = 1; if (!enc || st != OF_STATUS_OK) { viol ("kind=twin-encoder-rejected-same-parameters"); goto out; } }
	for (i = k; i < n; i++) {
		st = of_build_repair_symbol (enc, tab, i);
		if (st != OF_STATUS_OK) { char sig[96]; snprintf (sig, sizeof sig, "codec=%d|kind=accepted-but-encoding-fails|status=%d", t->codec, (int) st); viol (sig); goto out; }
	}
	/* reference check of the encoder output for the RS codecs (LDPC code construction itself is C05's) */
	if (t->codec != 3) {
		int mm = t->codec == 1 ? 8 : (int) t->m;
		unsigned char *G = malloc ((size_t) n * k), *want = malloc (len);
		rsr_generator (mm, (int) k, (int) n, G);
		for (i = k; i < n; i++) { rsr_encode_symbol (mm, (int) k, G + (size_t) i * k, sym, want, len); if (memcmp (want, sym[i], len)) { viol ("kind=accepted-but-repair-symbol-wrong"); break; } }
		free (G); free (want);
	}
	for (loss = 0; loss < 3; loss++) {	/* 0: the first k symbols; 1: source 0 lost, ascending; 2: source 0 lost, descending (the last repair symbols are used first) */
		void **src = calloc (k, sizeof (void *));
		if (!(t->role & OF_DECODER) || loss >= 1) { tw.role = OF_DECODER; dec = open_tuple (&tw, &st); own_dec = 1; if (!dec || st != OF_STATUS_OK) { viol ("kind=twin-decoder-rejected-same-parameters"); free (src); goto out; } }
		else { dec = s; own_dec = 0; }
		if (loss == 2 && n > 20000 && len > 64) { free (src); if (own_dec) { of_release_codec_instance (dec); own_dec = 0; } continue; }
		for (i = loss ? 1 : 0; i < n; i++) {
			uint32_t e = loss == 2 ? n - i : i;	/* descending: n-1 .. 1 */
			st = of_decode_with_new_symbol (dec, sym[e], e);
			if (st != OF_STATUS_OK) { viol ("kind=accepted-but-decode_with_new_symbol-fails"); break; }
			if (!loss && i + 1 == k) break;
		}
		if (!of_is_decoding_complete (dec)) of_finish_decoding (dec);
		if (!of_is_decoding_complete (dec)) { char sig[96]; snprintf (sig, sizeof sig, "codec=%d|kind=accepted-but-decoding-does-not-complete|loss=%d", t->codec, loss); viol (sig); }
		else if (of_get_source_symbols_tab (dec, src) != OF_STATUS_OK) viol ("kind=accepted-but-source-table-unavailable");
		else for (i = 0; i < k; i++) if (!src[i] || memcmp (src[i], sym[i], len)) { char sig[96]; snprintf (sig, sizeof sig, "codec=%d|kind=accepted-but-decoded-symbol-wrong|loss=%d", t->codec, loss); viol (sig); break; }
		{ if (own_dec) { of_release_codec_instance (dec); own_dec = 0; } if (loss) for (i = 0; i < k; i++) if (src[i] && src[i] != sym[i]) free (src[i]); }
		free (src);
	}
out:
	if (own_enc && enc) of_release_codec_instance (enc);
	if (own_dec && dec) of_release_codec_instance (dec);
	for (i = 0; i < n; i++) free (sym[i]);
	free (sym); free (tab);
}

static void tup_case (const tup_t *t)
{
	snprintf (g_case, sizeof g_case, "tuple codec=%d role=%d k=%u r=%u len=%u m=%u N1=%u seed=%lld pre=%d", t->codec, t->role, t->k, t->r, t->len, t->m, t->N1, (long long) t->seed, t->pre);
	memcpy (vf_slot (), g_case, sizeof g_case);
}
static void grid_item (long it, void *arg)
{
	const tup_t *t = &TU[it];
	const char *why = invalid_why (t);
	of_status_t st;
	of_session_t *s;
	char sig[128];
	(void) arg;
	vf_slot_set_prop ("C09");
	tup_case (t);
	s = open_tuple (t, &st);
	vf_stat_add (st_trans, 1);
	if (!s) { viol ("call=create|kind=failed"); return; }
	if (st == OF_STATUS_OK) vf_stat_add (st_acc, 1); else vf_stat_add (st_rej, 1);
	if (why && st == OF_STATUS_OK) { snprintf (sig, sizeof sig, "codec=%d|kind=invalid-configuration-accepted|why=%s", t->codec, why); viol (sig); }
	if (!why && st != OF_STATUS_OK) { snprintf (sig, sizeof sig, "codec=%d|kind=valid-configuration-rejected|status=%d", t->codec, (int) st); viol (sig); }
	if (!why && st == OF_STATUS_OK) functional_cycle (t, s);
	if (st != OF_STATUS_OK && t->pre == 0) {
		/* a refused configuration leaves a session that still accepts a valid one (the property excludes no session) */
		tup_t v = *t;
		of_status_t st2;
		v.k = t->codec == 3 ? 4 : 3; v.r = t->codec == 3 ? 4 : 2; v.len = 8; v.m = 8; v.N1 = 3; v.seed = 1;
		if (t->codec == 1) { of_rs_parameters_t p; memset (&p, 0, sizeof p); p.nb_source_symbols = v.k; p.nb_repair_symbols = v.r; p.encoding_symbol_length = v.len; st2 = of_set_fec_parameters (s, (of_parameters_t *) &p); }
		else if (t->codec == 2) { of_rs_2_m_parameters_t p; memset (&p, 0, sizeof p); p.nb_source_symbols = v.k; p.nb_repair_symbols = v.r; p.encoding_symbol_length = v.len; p.m = 8; st2 = of_set_fec_parameters (s, (of_parameters_t *) &p); }
		else { of_ldpc_parameters_t p; memset (&p, 0, sizeof p); p.nb_source_symbols = v.k; p.nb_repair_symbols = v.r; p.encoding_symbol_length = v.len; p.prng_seed = 1; p.N1 = 3; st2 = of_set_fec_parameters (s, (of_parameters_t *) &p); }
		vf_stat_add (st_trans, 1);
		if (st2 != OF_STATUS_OK) { snprintf (sig, sizeof sig, "codec=%d|kind=valid-configuration-rejected-after-a-refused-one|first=%s", t->codec, why ? why : "valid"); viol (sig); }
		else { snprintf (vf_slot (), VF_SLOT_LEN, "%s [retry with a valid configuration]", g_case); functional_cycle (&v, s); }
	}
	of_release_codec_instance (s);
	{ char nm[64]; snprintf (nm, sizeof nm, "codec%d:%s:%s", t->codec, why ? why : "valid", st == OF_STATUS_OK ? "OK" : "rejected"); vf_outcome (nm, 1); }
	vf_stat_add (st_states, 1);
}

/* ------------------------------------------------------------------ args mode */
typedef struct { int codec, role; uint32_t k, r, len, m, N1; int seed; int corruption; int moment; } ac_t;	/* moment: 0 right after configuration, 1 after some valid use, 2 the corrupted call made twice */
static ac_t *AC; static long NAC;
static const char *CORR[] = {
	"set_fec_parameters(NULL session)", "set_fec_parameters(NULL params)", "set_callback_functions(NULL session)", "build(NULL session)", "dws(NULL session)", "sas(NULL session)",
	"finish(NULL session)", "is_complete(NULL session)", "get_tab(NULL session)", "get_control(NULL session)", "set_control(NULL session)",
	"dws(esi=n)", "dws(esi=n+1)", "dws(esi=UINT32_MAX)", "build(esi=0)", "build(esi=k-1)", "build(esi=n)", "build(esi=n+1)", "build(esi=UINT32_MAX)",
	"build(on decoder-only)", "dws(on encoder-only)", "sas(on encoder-only)", "finish(on encoder-only)", "is_complete(on encoder-only)", "get_tab(on encoder-only)",
	"get_control(unknown type)", "get_control(bad length)", "set_control(field size 5) on a configured codec-2 session",
};
#define NCORR ((int) (sizeof CORR / sizeof CORR[0]))

static void args_item (long it, void *arg)
{
	ac_t *a = &AC[it];
	tup_t t = {a->codec, a->role, a->k, a->r, a->len, a->m, a->N1, a->seed, 0};
	uint32_t k = a->k, n = a->k + a->r, i;
	of_status_t st, cst = OF_STATUS_OK;
	of_session_t *s;
	unsigned char **sym = calloc (n, sizeof (void *));
	void **tab = calloc (n, sizeof (void *)), **src = calloc (k, sizeof (void *));
	unsigned char dummy[64];
	int applicable = 1, boolres = 0, isbool = 0, demand_error = 1;
	char sig[160];
	UINT32 val = 0;
	(void) arg;
	vf_slot_set_prop ("C09");
	snprintf (g_case, sizeof g_case, "args codec=%d role=%d k=%u r=%u len=%u m=%u N1=%u seed=%d corruption=%d moment=%d (%s)", a->codec, a->role, a->k, a->r, a->len, a->m, a->N1, a->seed, a->corruption, a->moment, CORR[a->corruption]);
	memcpy (vf_slot (), g_case, sizeof g_case);
	memset (dummy, 7, sizeof dummy);
	for (i = 0; i < n; i++) { uint32_t j; sym[i] = malloc (a->len); for (j = 0; j < a->len; j++) sym[i][j] = i < k ? (unsigned char) (vf_mix64 ((uint64_t) i * 77 + j) >> 5) : 0; tab[i] = sym[i]; }
	s = open_tuple (&t, &st);
	if (!s || st != OF_STATUS_OK) { viol ("kind=valid-configuration-rejected"); goto out; }
	{	/* valid control-parameter queries before the corrupted call (and again after it): OK, same answers */
		UINT32 mk = 0, mn = 0;
		if (of_get_control_parameter (s, OF_CTRL_GET_MAX_K, &mk, sizeof mk) != OF_STATUS_OK || of_get_control_parameter (s, OF_CTRL_GET_MAX_N, &mn, sizeof mn) != OF_STATUS_OK) viol ("kind=valid-control-query-fails|moment=before");
		val = mk * 65537u + mn;
	}
	if (a->moment == 1) {	/* some valid use first */
		if (a->role & OF_ENCODER) { for (i = k; i < n; i++) if (of_build_repair_symbol (s, tab, i) != OF_STATUS_OK) { viol ("kind=valid-build-fails"); break; } }	/* (all of them: the codeword must exist before anything is submitted) */
		else {
			tup_t te = t; of_session_t *e; te.role = OF_ENCODER; e = open_tuple (&te, &st);
			if (e) { for (i = k; i < n; i++) of_build_repair_symbol (e, tab, i); of_release_codec_instance (e); }
		}
		if (a->role & OF_DECODER) { if (of_decode_with_new_symbol (s, sym[n - 1], n - 1) != OF_STATUS_OK) viol ("kind=valid-dws-fails"); }
	}
	{
	uint32_t keepval = val; int rep, nrep = a->moment == 2 ? 2 : 1;
	for (rep = 0; rep < nrep; rep++)
	if (a->corruption == 0 || a->corruption == 1 || a->corruption == 2 || a->corruption == 10 || a->corruption == 25 || a->corruption == 26) applicable = 0;	/* not demanded by the property: not exercised */
	else switch (a->corruption) {
	case 0: { of_parameters_t p = {k, a->r, a->len}; cst = of_set_fec_parameters (NULL, &p); break; }
	case 1: cst = of_set_fec_parameters (s, NULL); if (cst != OF_STATUS_OK) { /* the session is still configured */ } break;
	case 2: cst = of_set_callback_functions (NULL, NULL, NULL, NULL); break;
	case 3: cst = of_build_repair_symbol (NULL, tab, k); break;
	case 4: cst = of_decode_with_new_symbol (NULL, sym[0], 0); break;
	case 5: cst = of_set_available_symbols (NULL, tab); break;
	case 6: cst = of_finish_decoding (NULL); break;
	case 7: isbool = 1; boolres = of_is_decoding_complete (NULL); break;
	case 8: cst = of_get_source_symbols_tab (NULL, src); break;
	case 9: cst = of_get_control_parameter (NULL, OF_CTRL_GET_MAX_K, &val, sizeof val); break;
	case 10: cst = of_set_control_parameter (NULL, OF_CTRL_GET_MAX_K, &val, sizeof val); break;
	case 11: case 12: case 13:
		if (!(a->role & OF_DECODER)) { applicable = 0; break; }
		cst = of_decode_with_new_symbol (s, dummy, a->corruption == 11 ? n : a->corruption == 12 ? n + 1 : 0xFFFFFFFFu); break;
	case 14: case 15: case 16: case 17: case 18:
		if (!(a->role & OF_ENCODER)) { applicable = 0; break; }
		cst = of_build_repair_symbol (s, tab, a->corruption == 14 ? 0 : a->corruption == 15 ? k - 1 : a->corruption == 16 ? n : a->corruption == 17 ? n + 1 : 0xFFFFFFFFu); break;
	case 19: if (a->role != OF_DECODER) { applicable = 0; break; } cst = of_build_repair_symbol (s, tab, k); break;
	case 20: if (a->role != OF_ENCODER) { applicable = 0; break; } cst = of_decode_with_new_symbol (s, sym[0], 0); break;
	case 21: if (a->role != OF_ENCODER) { applicable = 0; break; } cst = of_set_available_symbols (s, tab); break;
	case 22: if (a->role != OF_ENCODER) { applicable = 0; break; } cst = of_finish_decoding (s); break;
	case 23: if (a->role != OF_ENCODER) { applicable = 0; break; } isbool = 1; boolres = of_is_decoding_complete (s); break;
	case 24: if (a->role != OF_ENCODER) { applicable = 0; break; } cst = of_get_source_symbols_tab (s, src); break;
	case 25: cst = of_get_control_parameter (s, 77777, &val, sizeof val); break;
	case 26: cst = of_get_control_parameter (s, OF_CTRL_GET_MAX_K, &val, 1); break;
	case 27: { UINT16 fs = 5; if (a->codec != 2) { applicable = 0; break; } demand_error = 0; cst = of_set_control_parameter (s, OF_RS_CTRL_SET_FIELD_SIZE, &fs, sizeof fs); if (cst == OF_STATUS_OK) applicable = 0; /* not refused: nothing is demanded */ break; }
	}
	{
		UINT32 mk = 0, mn = 0;
		if (of_get_control_parameter (s, OF_CTRL_GET_MAX_K, &mk, sizeof mk) != OF_STATUS_OK || of_get_control_parameter (s, OF_CTRL_GET_MAX_N, &mn, sizeof mn) != OF_STATUS_OK) viol ("kind=valid-control-query-fails|moment=after");
		else if (mk * 65537u + mn != keepval) viol ("kind=control-answers-change-after-corrupted-call");
	}
	}
	vf_stat_add (st_trans, 1);
	if (applicable) {
		if (demand_error && (isbool ? boolres != 0 : cst == OF_STATUS_OK)) { snprintf (sig, sizeof sig, "codec=%d|kind=corrupted-call-accepted|call=%s", a->codec, CORR[a->corruption]); viol (sig); }
		/* source buffers must not have been touched */
		for (i = 0; i < k; i++) { uint32_t j; for (j = 0; j < a->len; j++) if (sym[i][j] != (unsigned char) (vf_mix64 ((uint64_t) i * 77 + j) >> 5)) { snprintf (sig, sizeof sig, "codec=%d|kind=corrupted-call-modified-source|call=%s", a->codec, CORR[a->corruption]); viol (sig); i = k; break; } }
		/* the session is still usable */
		snprintf (vf_slot (), VF_SLOT_LEN, "%s [follow-up use]", g_case);
		if (a->role & OF_ENCODER) {
			for (i = k; i < n; i++) if (of_build_repair_symbol (s, tab, i) != OF_STATUS_OK) { snprintf (sig, sizeof sig, "codec=%d|kind=session-unusable-after-corrupted-call|call=%s|use=build", a->codec, CORR[a->corruption]); viol (sig); break; }
		} else {
			tup_t te = t; of_session_t *e; te.role = OF_ENCODER; e = open_tuple (&te, &st);
			if (e) { for (i = k; i < n; i++) of_build_repair_symbol (e, tab, i); of_release_codec_instance (e); }
		}
		if (a->role & OF_DECODER) {
			for (i = 1; i < n; i++) if (of_decode_with_new_symbol (s, sym[i], i) != OF_STATUS_OK) { snprintf (sig, sizeof sig, "codec=%d|kind=session-unusable-after-corrupted-call|call=%s|use=dws", a->codec, CORR[a->corruption]); viol (sig); break; }
			if (!of_is_decoding_complete (s)) of_finish_decoding (s);
			if (!of_is_decoding_complete (s) || of_get_source_symbols_tab (s, src) != OF_STATUS_OK || !src[0] || memcmp (src[0], sym[0], a->len)) { snprintf (sig, sizeof sig, "codec=%d|kind=session-unusable-after-corrupted-call|call=%s|use=decode", a->codec, CORR[a->corruption]); viol (sig); }
			else if (src[0] != sym[0]) { of_release_codec_instance (s); s = NULL; free (src[0]); }
		}
		vf_stat_add (st_states, 1);
		{ char nm[80]; snprintf (nm, sizeof nm, "args:%s", CORR[a->corruption]); vf_outcome (nm, 1); }
	}
out:
	if (s) of_release_codec_instance (s);
	for (i = 0; i < n; i++) free (sym[i]);
	free (sym); free (tab); free (src);
}

static void item_replay (long it, void *arg)
{
	const char *cs = vf_replay_case ();
	(void) it; (void) arg;
	vf_slot_set_prop ("C09");
	if (!strncmp (cs, "tuple ", 6)) {
		tup_t t; long long seed;
		t.pre = 0;
		if (sscanf (cs, "tuple codec=%d role=%d k=%u r=%u len=%u m=%u N1=%u seed=%lld pre=%d", &t.codec, &t.role, &t.k, &t.r, &t.len, &t.m, &t.N1, &seed, &t.pre) < 8) return;
		t.seed = seed; TU = &t; NTU = 1; grid_item (0, NULL);
	} else if (!strncmp (cs, "args ", 5)) {
		ac_t a;
		a.moment = 0;
		if (sscanf (cs, "args codec=%d role=%d k=%u r=%u len=%u m=%u N1=%u seed=%d corruption=%d moment=%d", &a.codec, &a.role, &a.k, &a.r, &a.len, &a.m, &a.N1, &a.seed, &a.corruption, &a.moment) < 9) return;
		AC = &a; NAC = 1; args_item (0, NULL);
	}
}

static int uniq_add (uint64_t *v, int n, uint64_t x) { int i; if (x > 0xFFFFFFFFULL) return n; for (i = 0; i < n; i++) if (v[i] == x) return n; v[n] = x; return n + 1; }

int main (int argc, char **argv)
{
	const char *mode;
	int thorough, codec, role, mi, a, b, c, d, e;
	vf_init (argc, argv);
	thorough = vf_tier_thorough ();
	mode = vf_opt ("mode", "grid");
	st_states = vf_stat_id ("states"); st_trans = vf_stat_id ("transitions"); st_exec = vf_stat_id ("executions"); st_dn = vf_stat_id ("distinct_nontrivial");
	st_acc = vf_stat_id ("accepted"); st_rej = vf_stat_id ("rejected"); st_func = vf_stat_id ("functional_cycles");
	if (vf_replay_case ()) { vf_pool_run (1, item_replay, NULL, 300); vf_finish (); return 0; }
	if (!strcmp (mode, "grid")) {
		static const uint64_t lens[] = {0, 1, 2, 7, 8, 9, 1024, 65536, 0xFFFFFFFFULL};
		static const uint32_t ms[] = {0, 1, 3, 4, 5, 7, 8, 9, 16, 65535};
		static const int64_t seeds[] = {-2147483648LL, -1, 0, 1, 2, 2147483646LL, 2147483647LL};
		static const int roles[] = {OF_ENCODER, OF_DECODER, OF_ENCODER_AND_DECODER};
		for (codec = 1; codec <= 3; codec++)
			for (mi = 0; mi < (codec == 2 ? 10 : 1); mi++) {
				uint32_t m = codec == 2 ? ms[mi] : 8;
				uint64_t K = maxk (codec, (m == 4 || m == 8) ? m : 8), N = K, ks[16], rs[16];
				int nk = 0, nr;
				ks[nk++] = 0; nk = uniq_add (ks, nk, 1); nk = uniq_add (ks, nk, 2); nk = uniq_add (ks, nk, 3); nk = uniq_add (ks, nk, K - 1); nk = uniq_add (ks, nk, K); nk = uniq_add (ks, nk, K + 1);
				nk = uniq_add (ks, nk, 0x7FFFFFFFULL); nk = uniq_add (ks, nk, 0x80000000ULL); nk = uniq_add (ks, nk, 0xFFFFFFFFULL);
				for (a = 0; a < nk; a++) {
					nr = 0; rs[nr++] = 0; nr = uniq_add (rs, nr, 1); nr = uniq_add (rs, nr, 2); nr = uniq_add (rs, nr, 3);
					if (ks[a] + 1 < N) nr = uniq_add (rs, nr, N - ks[a] - 1);
					if (ks[a] < N) nr = uniq_add (rs, nr, N - ks[a]);
					if (ks[a] <= N) nr = uniq_add (rs, nr, N - ks[a] + 1);
					nr = uniq_add (rs, nr, 0x7FFFFFFFULL); nr = uniq_add (rs, nr, 0x80000000ULL); nr = uniq_add (rs, nr, 0xFFFFFFFFULL); nr = uniq_add (rs, nr, 0xFFFFFFFFULL - ks[a] + 1);
					for (b = 0; b < nr; b++) for (c = 0; c < 9; c++) for (role = 0; role < 3; role++) {
						if (codec != 3) {
							add_tu (codec, roles[role], (uint32_t) ks[a], (uint32_t) rs[b], (uint32_t) lens[c], m, 0, 0);
							if (codec == 2 && (m == 4 || m == 8) && lens[c] >= 1 && lens[c] <= 9) { add_tu (codec, roles[role], (uint32_t) ks[a], (uint32_t) rs[b], (uint32_t) lens[c], m, 0, 0); TU[NTU - 1].pre = 4; add_tu (codec, roles[role], (uint32_t) ks[a], (uint32_t) rs[b], (uint32_t) lens[c], m, 0, 0); TU[NTU - 1].pre = 8; }
							continue;
						}
						{
							uint64_t n1s[12]; int nn = 0;
							n1s[nn++] = 0; nn = uniq_add (n1s, nn, 1); nn = uniq_add (n1s, nn, 2); nn = uniq_add (n1s, nn, 3); nn = uniq_add (n1s, nn, 4);
							if (rs[b] >= 1 && rs[b] - 1 <= 255) nn = uniq_add (n1s, nn, rs[b] - 1);
							if (rs[b] <= 255) nn = uniq_add (n1s, nn, rs[b]);
							if (rs[b] + 1 <= 255) nn = uniq_add (n1s, nn, rs[b] + 1);
							nn = uniq_add (n1s, nn, 255);
							for (d = 0; d < nn; d++) for (e = 0; e < 7; e++) {
								/* quick tier: the huge accepted shapes only with two lengths and one role */
								if (!thorough && ks[a] + rs[b] > 10000 && ks[a] + rs[b] <= 50000 && (lens[c] > 8 || role != 1 || (e != 3 && e != 5) || n1s[d] > 4)) {
									tup_t t = {codec, roles[role], (uint32_t) ks[a], (uint32_t) rs[b], (uint32_t) lens[c], m, (uint32_t) n1s[d], seeds[e], 0};
									if (!invalid_why (&t)) continue;
								}
								add_tu (codec, roles[role], (uint32_t) ks[a], (uint32_t) rs[b], (uint32_t) lens[c], m, (uint32_t) n1s[d], seeds[e]);
							}
						}
					}
				}
			}
		{	/* interior values: counters, table sizes and products that wrap at 8 / 16 / 24 / 32 bits (the limits above are
			 * not the only places where a width can be too small) */
			static const uint32_t lr[] = {255, 256, 257, 258, 259, 260, 300, 511, 512, 513, 767, 768, 1023, 1024, 1025, 4095, 4096, 4097, 32767, 32768, 32769, 49000};
			static const uint32_t lk[] = {1, 2, 10, 255, 256, 257, 1000};
			static const uint32_t ln1[] = {3, 4, 5, 10, 45, 100, 255};
			static const uint32_t rk[] = {16, 31, 32, 33, 63, 64, 65, 127, 128, 129, 200, 250};
			static const uint32_t hl[] = {100, 255, 256, 257, 4096, 65535, 65536, 65537, 1u << 20, 16843009u, 16843010u, (1u << 24) + 1};
			int x, y, z;
			for (x = 0; x < (int) (sizeof lr / sizeof lr[0]); x++) for (y = 0; y < (int) (sizeof lk / sizeof lk[0]); y++) for (z = 0; z < (int) (sizeof ln1 / sizeof ln1[0]); z++) {
				if (!thorough && lr[x] > 5000 && (y > 1 || z > 1)) continue;
				if (!thorough && (x + y + z) % 3 && lr[x] > 600 && lk[y] > 10) continue;
				add_tu (3, roles[(x + y + z) % 3], lk[y], lr[x], 8, 8, ln1[z], 1 + z);
				if (thorough) { add_tu (3, roles[(x + y + z + 1) % 3], lk[y], lr[x], 8, 8, ln1[z], 1 + z); add_tu (3, roles[(x + y + z + 2) % 3], lk[y], lr[x], 8, 8, ln1[z], 1 + z); }
			}
			{	/* derived quantities at a width boundary: the number of extra entries 2(n-k) - N1*k of a low-rate code with even N1 equal to 2^8, 2^9, 2^16 */
				static const uint32_t ex[] = {256, 512, 65536}, ek[] = {2, 3, 5, 10, 100};
				for (x = 0; x < 3; x++) for (y = 0; y < 5; y++) for (z = 4; z <= 6; z += 2) {
					if (ex[x] > 60000 && (y > 1 || (!thorough && z == 6))) continue;
					add_tu (3, roles[(x + y + z / 2) % 3], ek[y], (ex[x] + (uint32_t) z * ek[y]) / 2, 8, 8, (uint32_t) z, 1 + y);
				}
			}
			for (x = 0; x < (int) (sizeof rk / sizeof rk[0]); x++) for (role = 0; role < 3; role++) {
				static const uint32_t rr[] = {1, 3, 5};
				for (y = 0; y < 3; y++) { add_tu (1, roles[role], rk[x], rr[y], 8, 8, 0, 0); add_tu (2, roles[role], rk[x], rr[y], 8, 8, 0, 0); }
				add_tu (1, roles[role], rk[x], 255 - rk[x], 8, 8, 0, 0); add_tu (2, roles[role], rk[x], 255 - rk[x], 8, 8, 0, 0);
			}
			for (x = 0; x < (int) (sizeof hl / sizeof hl[0]); x++) for (role = 0; role < 3; role++) for (y = 1; y <= 2; y++) {
				if (!thorough && hl[x] > 70000 && role != (x % 3) && role != 1) continue;
				add_tu (1, roles[role], (uint32_t) y, (uint32_t) y, hl[x], 8, 0, 0); add_tu (2, roles[role], (uint32_t) y, (uint32_t) y, hl[x], 8, 0, 0);
				add_tu (2, roles[role], (uint32_t) y, (uint32_t) y, hl[x], 4, 0, 0); add_tu (3, roles[role], (uint32_t) y, 3, hl[x], 8, 3, 1);
			}
		}
		vf_note ("grid: %ld tuples", NTU);
		vf_pool_run (NTU, grid_item, NULL, 120);
	} else {
		static const struct { int codec; uint32_t k, r, len, m, N1; int seed; } base[] = {
			{1, 3, 2, 8, 8, 0, 0}, {1, 10, 6, 5, 8, 0, 0}, {2, 3, 2, 8, 8, 0, 0}, {2, 7, 8, 6, 4, 0, 0}, {2, 10, 6, 5, 8, 0, 0}, {3, 4, 4, 8, 0, 3, 1}, {3, 10, 6, 5, 0, 4, 2}, {3, 20, 10, 16, 0, 5, 7},
		};
		static const int roles[] = {OF_ENCODER, OF_DECODER, OF_ENCODER_AND_DECODER};
		AC = malloc (sizeof (ac_t) * 8 * 3 * NCORR * 3);
		for (d = 0; d < 3; d++) for (a = 0; a < 8; a++) for (role = 0; role < 3; role++) for (c = 0; c < NCORR; c++) {
			ac_t x = {base[a].codec, roles[role], base[a].k, base[a].r, base[a].len, base[a].m, base[a].N1, base[a].seed, c, d};
			AC[NAC++] = x;
		}
		vf_note ("args: %ld (session, corruption) pairs", NAC);
		vf_pool_run (NAC, args_item, NULL, 60);
	}
	vf_stat_add (st_exec, vf_stat_get (st_trans));
	vf_stat_add (st_dn, vf_stat_get (st_states));
	vf_sample ("tuple codec=3 role=2 k=50000 r=1 len=8 N1=3 seed=1: n>MAX_N must be rejected; tuple codec=2 role=3 k=15 r=0 m=4: r=0 must be rejected; tuple codec=1 role=1 k=254 r=1 len=1: valid, encode+decode checked");
	vf_finish ();
	return 0;
}
