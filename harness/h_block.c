/* h_block.c — C20: eperftool's block partitioning follows RFC 5052.
 * applis/eperftool/blocking_struct.c is compiled by translation-unit inclusion (it prints on every
 * call; workers have stdout on /dev/null). Complete enumeration of (T,B) squares and (L,E,B) cubes
 * plus a boundary cross product up to the 32-bit limits, against integer-only arithmetic. */
#include "vf.h"
#include "ref.h"
#include "applis/eperftool/blocking_struct.c"

static int st_states, st_trans, st_exec, st_dn;
static long TB_MAX, L_MAX, E_MAX, B_MAX;

static void check_one (uint64_t L, uint64_t E, uint64_t B)
{
	of_blocking_struct_t bs;
	blk_ref r;
	const char *k = NULL;
	memset (&bs, 0xEE, sizeof bs);
	of_compute_blocking_struct ((UINT32) B, (UINT32) L, (UINT32) E, &bs);
	blk_ref_compute (L, E, B, &r);
	if (bs.nb_blocks != r.N) k = "nb_blocks";
	else if (bs.A_small != r.A_small) k = "A_small";
	else if (bs.A_large != r.A_large) k = "A_large";
	else if (bs.I != r.I) k = "I";
	else if (bs.A_large > B) k = "A_large-exceeds-B";
	else if ((uint64_t) bs.I * bs.A_large + (uint64_t) (bs.nb_blocks - bs.I) * bs.A_small != r.T) k = "sum";
	if (k) {
		char sig[96];
		snprintf (sig, sizeof sig, "kind=wrong-%s|%s", k, r.N >= ((uint64_t) 1 << 31) ? "N>=2^31" : (r.T >= ((uint64_t) 1 << 31) ? "T>=2^31" : "small"));
		vf_viol ("C20", sig, "L=%llu E=%llu B=%llu got=(N=%u,I=%u,Al=%u,As=%u) want=(N=%llu,I=%llu,Al=%llu,As=%llu)", (unsigned long long) L, (unsigned long long) E, (unsigned long long) B,
			 bs.nb_blocks, bs.I, bs.A_large, bs.A_small, (unsigned long long) r.N, (unsigned long long) r.I, (unsigned long long) r.A_large, (unsigned long long) r.A_small);
	}
}

/* item kinds: [0, TB_MAX): T = item+1, all B in 1..TB_MAX, E = 1
 *             [TB_MAX, TB_MAX+E_MAX): E = item-TB_MAX+1, all L in 1..L_MAX, all B in 1..B_MAX
 *             last: boundary cross product */
static uint64_t BL[128], BE[8], BB[16]; static int nBL, nBE, nBB;
static void item (long it, void *arg)
{
	uint64_t a, b;
	long n = 0;
	(void) arg;
	vf_slot_set_prop ("C20");
	snprintf (vf_slot (), VF_SLOT_LEN, "item=%ld", it);
	if (it < TB_MAX) {
		uint64_t T = (uint64_t) it + 1;
		for (b = 1; b <= (uint64_t) TB_MAX; b++) { check_one (T, 1, b); n++; }
		vf_heartbeat ();
	} else if (it < TB_MAX + E_MAX) {
		uint64_t E = (uint64_t) (it - TB_MAX) + 1;
		for (a = 1; a <= (uint64_t) L_MAX; a++) { for (b = 1; b <= (uint64_t) B_MAX; b++) { check_one (a, E, b); n++; } vf_heartbeat (); }
	} else {
		int i, j, k;
		for (i = 0; i < nBL; i++) for (j = 0; j < nBE; j++) for (k = 0; k < nBB; k++) { check_one (BL[i], BE[j], BB[k]); n++; }
	}
	vf_stat_add (st_trans, n);
}

/* long ranges: every T in 1..T_LONG (block of 4096 per item) x a list of B, with E = 1 and with E in {2, 1024, 1500} at
 * the three lengths around each multiple of E (L = T*E-(E-1), T*E-1, T*E: the ceiling boundary) */
static long T_LONG;
static const uint64_t LB[] = {1, 2, 3, 4, 5, 7, 8, 9, 15, 16, 17, 31, 32, 33, 63, 64, 65, 100, 127, 128, 129, 254, 255, 256, 257, 1000, 1023, 1024, 1025, 4096, 10000, 50000, 65535, 65536, 65537, 100000, 1000000, 16777215, 16777216, 16777217};
static void item_long (long it, void *arg)
{
	uint64_t T, lo = (uint64_t) it * 4096 + 1, hi = lo + 4096;
	static const uint64_t ES[] = {2, 1024, 1500};
	long n = 0;
	int b, e;
	(void) arg;
	vf_slot_set_prop ("C20");
	snprintf (vf_slot (), VF_SLOT_LEN, "long T=%llu..", (unsigned long long) lo);
	for (T = lo; T < hi && T <= (uint64_t) T_LONG; T++)
		for (b = 0; b < (int) (sizeof LB / sizeof LB[0]); b++) {
			check_one (T, 1, LB[b]); n++;
			if ((b % 3) == (int) (T % 3))
				for (e = 0; e < 3; e++) {
					uint64_t top = T * ES[e];
					if (top > 0xFFFFFFFFULL) continue;
					check_one (top, ES[e], LB[b]); check_one (top - 1, ES[e], LB[b]); check_one (top - (ES[e] - 1), ES[e], LB[b]); n += 3;
				}
		}
	vf_heartbeat ();
	vf_stat_add (st_trans, n);
}

/* near-exact divisions: T = N*A + r with r in {0,1,2,N-2,N-1} for every N in 1..NMAX (item = N) and every A of a list
 * that has the mid-range values (200, 500, 1500, 3000, 20000 ...) next to the round ones; evaluated with B = A and
 * B = A+1 (so that ceil(T/B) is N or just below) for E = 1 and E = 1316 (L = T*E - 3): the places where a ceiling, a
 * floor or a tolerance can go wrong are exactly the neighbours of exact multiples */
static long N_NEAR;
static void item_near (long it, void *arg)
{
	static const uint64_t AL[] = {1, 2, 3, 4, 7, 8, 9, 16, 17, 31, 33, 63, 64, 100, 127, 129, 200, 255, 256, 257, 300, 499, 500, 501, 999, 1000, 1001, 1023, 1025, 1316, 1472, 1499, 1500, 2000, 3000, 4096, 5000, 9999, 10000, 10001, 16384, 19999, 20000, 20001, 32768, 50000, 65535, 65536, 65537, 100000};
	uint64_t N = (uint64_t) it + 1;
	long n = 0;
	int a, q;
	(void) arg;
	vf_slot_set_prop ("C20");
	snprintf (vf_slot (), VF_SLOT_LEN, "near N=%llu", (unsigned long long) N);
	for (a = 0; a < (int) (sizeof AL / sizeof AL[0]); a++)
		for (q = 0; q < 5; q++) {
			uint64_t r = q < 3 ? (uint64_t) q : N - (uint64_t) (5 - q), T;
			if (r >= N && !(N == 1 && r == 0)) continue;
			T = N * AL[a] + r;
			if (T == 0 || T > 0xFFFFFFFFULL) continue;
			check_one (T, 1, AL[a]); check_one (T, 1, AL[a] + 1); n += 2;
			if (AL[a] > 1) { check_one (T, 1, AL[a] - 1); n++; }
			if (T * 1316 <= 0xFFFFFFFFULL && T * 1316 > 3) { check_one (T * 1316 - 3, 1316, AL[a]); check_one (T * 1316 - 3, 1316, AL[a] + 1); n += 2; }
		}
	vf_heartbeat ();
	vf_stat_add (st_trans, n);
}

static void item_replay (long it, void *arg)
{
	unsigned long long L = 0, E = 0, B = 0;
	(void) it; (void) arg;
	vf_slot_set_prop ("C20");
	if (sscanf (vf_replay_case (), "L=%llu E=%llu B=%llu", &L, &E, &B) == 3) check_one (L, E, B);
}

int main (int argc, char **argv)
{
	int thorough, e;
	vf_init (argc, argv);
	thorough = vf_tier_thorough ();
	st_states = vf_stat_id ("states"); st_trans = vf_stat_id ("transitions"); st_exec = vf_stat_id ("executions"); st_dn = vf_stat_id ("distinct_nontrivial");
	TB_MAX = thorough ? 4096 : 1500; L_MAX = thorough ? 512 : 256; E_MAX = thorough ? 64 : 32; B_MAX = thorough ? 64 : 32;
	for (e = 1; e <= 32; e++) {
		uint64_t p = (uint64_t) 1 << e;
		if (p - 1 >= 1 && p - 1 <= 0xFFFFFFFFULL) BL[nBL++] = p - 1;
		if (p <= 0xFFFFFFFFULL) BL[nBL++] = p;
		if (p + 1 <= 0xFFFFFFFFULL) BL[nBL++] = p + 1;
	}
	BL[nBL++] = 1; BL[nBL++] = 3000000000ULL; BL[nBL++] = 4294967294ULL;
	BE[nBE++] = 1; BE[nBE++] = 2; BE[nBE++] = 3; BE[nBE++] = 1024; BE[nBE++] = (uint64_t) 1 << 31; BE[nBE++] = 0xFFFFFFFFULL;
	BB[nBB++] = 1; BB[nBB++] = 2; BB[nBB++] = 3; BB[nBB++] = 255; BB[nBB++] = 50000; BB[nBB++] = 0x7FFFFFFFULL; BB[nBB++] = (uint64_t) 1 << 31; BB[nBB++] = 0xFFFFFFFFULL;
	if (vf_replay_case ()) {
		vf_pool_run (1, item_replay, NULL, 60);
		vf_finish ();
		return 0;
	}
	vf_pool_run (TB_MAX + E_MAX + 1, item, NULL, 0);
	T_LONG = thorough ? (1L << 22) : (1L << 19);
	vf_pool_run ((T_LONG + 4095) / 4096, item_long, NULL, 0);
	vf_outcome ("long_T_range", T_LONG);
	N_NEAR = thorough ? 20000 : 4096;
	vf_pool_run (N_NEAR, item_near, NULL, 0);
	vf_outcome ("near_exact_division_N", N_NEAR);
	{
		of_blocking_struct_t bs;
		blk_ref r;
		blk_ref_compute (1000000, 1024, 255, &r);
		(void) bs;
		vf_sample ("L=1000000 E=1024 B=255: reference T=%llu N=%llu A_large=%llu A_small=%llu I=%llu (library agreed in the enumeration)", (unsigned long long) r.T, (unsigned long long) r.N, (unsigned long long) r.A_large, (unsigned long long) r.A_small, (unsigned long long) r.I);
		blk_ref_compute (4097, 1, 4096, &r);
		vf_sample ("T=4097 B=4096: N=%llu A_large=%llu A_small=%llu I=%llu", (unsigned long long) r.N, (unsigned long long) r.A_large, (unsigned long long) r.A_small, (unsigned long long) r.I);
	}
	vf_stat_add (st_states, vf_stat_get (st_trans));
	vf_stat_add (st_exec, vf_stat_get (st_trans));
	vf_stat_add (st_dn, vf_stat_get (st_trans));
	vf_outcome ("TB_square", TB_MAX * TB_MAX);
	vf_outcome ("LEB_cube", L_MAX * E_MAX * B_MAX);
	vf_outcome ("boundary_cross_product", (long) nBL * nBE * nBB);
	vf_finish ();
	return 0;
}
