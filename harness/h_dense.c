/* h_dense.c — C18: dense GF(2) matrix operations, popcount helpers and the symbol-level solver agree
 * with exact bit-matrix algebra.
 *  --mode ops     explicit-state BFS (depth-bounded) over sequences of set/flip/clear/copy/copyrows/
 *                 copycols/xor_rows on two real matrices against a byte-per-bit model; after every step
 *                 every cell, every row/column weight, emptiness, density, row_weight_ignore_first (multiples
 *                 of 32) and of_hweight_array are compared. Column counts 1,31,32,33,64,65.
 *  --mode popcnt  all 2^32 arguments of of_hweight32 / _table / _naive, all 256 of of_hweight8_table,
 *                 of_popcount_3 and of_hweight_array on boundary patterns.
 *  --mode solver  every p x q binary system (q<=p<=4, (5,<=4), (6,<=3)) and every 4x4 block embedded at the
 *                 word boundaries of a 66-column identity-completed system, right-hand sides built from a
 *                 known x: status OK <=> full column rank, and then the variables equal x. */
#include "bfs.h"
#include "ref.h"
#include "lib_common/linear_binary_codes_utils/of_linear_binary_code.h"

extern UINT8 of_hweight8_table (UINT8 w);
static int st_states, st_trans, st_exec, st_merges, st_dn, st_self, st_audits;
static char g_desc[VF_SLOT_LEN];
static void dviol (const char *sig) { vf_viol ("C18", sig, "%s", g_desc); }

/* ============================================================ ops mode */
typedef struct { int ra, ca, rb, cb; } dcfg_t;
enum { D_SET1, D_FLIP, D_CLEAR, D_COPY, D_COPYROWS, D_COPYCOLS, D_XOR };
typedef struct { int kind, src, i, j; int vec[4]; int cvec; } dop_t;
static dop_t DOPS[512]; static int NDOPS;
static dcfg_t DC;
static const char *DKN[] = {"set", "flip", "clear", "copy", "copyrows", "copycols", "xor_rows"};
typedef struct { of_mod2dense *m[2]; unsigned char bit[2][4][72]; int r[2], c[2]; } dw_t;

static void *d_fresh (void *cfg)
{
	dcfg_t *c = cfg;
	dw_t *w = calloc (1, sizeof *w);
	w->r[0] = c->ra; w->c[0] = c->ca; w->r[1] = c->rb; w->c[1] = c->cb;
	w->m[0] = of_mod2dense_allocate ((UINT32) c->ra, (UINT32) c->ca);
	w->m[1] = of_mod2dense_allocate ((UINT32) c->rb, (UINT32) c->cb);
	return w;
}
static void d_destroy (void *wv, int check) { dw_t *w = wv; (void) check; of_mod2dense_free (w->m[0]); of_mod2dense_free (w->m[1]); free (w); }
static int d_enabled (void *wv, int op)
{
	dw_t *w = wv; dop_t *o = &DOPS[op]; int s = o->src, d = 1 - s;
	switch (o->kind) {
	case D_COPY: return w->r[s] <= w->r[d] && w->c[s] <= w->c[d];
	case D_COPYROWS: return w->c[s] <= w->c[d];
	case D_COPYCOLS: return w->r[s] <= w->r[d];
	default: return 1;
	}
}
/* column vector families for copycols: 0 identity (clipped), 1 reverse, 2 all-last, 3 shift by one, 4 all-zero */
static int colmap (int fam, int j, int cs, int cd)
{
	(void) cd;
	switch (fam) {
	case 0: return j < cs ? j : cs - 1;
	case 1: return (cs - 1) - (j % cs);
	case 2: return cs - 1;
	case 3: return (j + 1) % cs;
	default: return 0;
	}
}
static void d_check (dw_t *w, const char *after)
{
	int t, i, j;
	char sig[160];
	for (t = 0; t < 2; t++) {
		of_mod2dense *m = w->m[t];
		long ones = 0;
		for (i = 0; i < w->r[t]; i++) {
			int wt = 0, ig;
			for (j = 0; j < w->c[t]; j++) {
				int g = (int) of_mod2dense_get (m, (UINT32) i, (UINT32) j);
				if (g != w->bit[t][i][j]) { snprintf (sig, sizeof sig, "after=%s|kind=cell-differs-from-model|cols%%32=%d", after, w->c[t] % 32); dviol (sig); return; }
				wt += g;
			}
			ones += wt;
			if ((int) of_mod2dense_row_weight (m, (UINT32) i) != wt) { snprintf (sig, sizeof sig, "after=%s|kind=row_weight-wrong", after); dviol (sig); return; }
			if ((of_mod2dense_row_is_empty (m, (UINT32) i) != 0) != (wt == 0)) { snprintf (sig, sizeof sig, "after=%s|kind=row_is_empty-wrong", after); dviol (sig); return; }
			if ((int) of_hweight_array ((UINT32 *) m->row[i], w->c[t]) != wt) { snprintf (sig, sizeof sig, "after=%s|kind=hweight_array-of-row-wrong", after); dviol (sig); return; }
			for (ig = 0; ig <= w->c[t] - 1; ig += 32) {
				int wi = 0;
				for (j = ig; j < w->c[t]; j++) wi += w->bit[t][i][j];
				if ((int) of_mod2dense_row_weight_ignore_first (m, (UINT32) i, (UINT32) ig) != wi) { snprintf (sig, sizeof sig, "after=%s|kind=row_weight_ignore_first-wrong|ignore=%d", after, ig); dviol (sig); return; }
			}
		}
		for (j = 0; j < w->c[t]; j++) {
			int wt = 0;
			for (i = 0; i < w->r[t]; i++) wt += w->bit[t][i][j];
			if ((int) of_mod2dense_col_weight (m, (UINT32) j) != wt) { snprintf (sig, sizeof sig, "after=%s|kind=col_weight-wrong", after); dviol (sig); return; }
		}
		{
			double dn = of_mod2dense_density (m), want = (double) ones / ((double) w->r[t] * w->c[t]);
			if (dn != want) { snprintf (sig, sizeof sig, "after=%s|kind=density-wrong", after); dviol (sig); return; }
		}
	}
}
static void d_apply (void *wv, int op, int check)
{
	dw_t *w = wv; dop_t *o = &DOPS[op];
	int s = o->src, d = 1 - s, i, j;
	of_mod2dense *S = w->m[s], *D = w->m[d];
	switch (o->kind) {
	case D_SET1: { INT32 rc = of_mod2dense_set (S, (UINT32) o->i, (UINT32) o->j, 1); w->bit[s][o->i][o->j] = 1; if (check && rc != 0) dviol ("after=set|kind=in-range-set-returned-error"); break; }
	case D_FLIP: { UINT32 b = of_mod2dense_flip (S, (UINT32) o->i, (UINT32) o->j); w->bit[s][o->i][o->j] ^= 1; if (check && (int) b != w->bit[s][o->i][o->j]) dviol ("after=flip|kind=flip-return-value-wrong"); break; }
	case D_CLEAR: of_mod2dense_clear (S); memset (w->bit[s], 0, sizeof w->bit[s]); break;
	case D_COPY:
		of_mod2dense_copy (S, D); memset (w->bit[d], 0, sizeof w->bit[d]);
		for (i = 0; i < w->r[s]; i++) for (j = 0; j < w->c[s]; j++) w->bit[d][i][j] = w->bit[s][i][j];
		break;
	case D_COPYROWS: {
		UINT32 v[4]; for (i = 0; i < 4; i++) v[i] = (UINT32) o->vec[i];
		of_mod2dense_copyrows (S, D, v); memset (w->bit[d], 0, sizeof w->bit[d]);
		for (i = 0; i < w->r[d]; i++) for (j = 0; j < w->c[s]; j++) w->bit[d][i][j] = w->bit[s][o->vec[i]][j];
		break; }
	case D_COPYCOLS: {
		UINT32 v[72];
		for (j = 0; j < w->c[d]; j++) v[j] = (UINT32) colmap (o->cvec, j, w->c[s], w->c[d]);
		of_mod2dense_copycols (S, D, v);
		for (j = 0; j < w->c[d]; j++) for (i = 0; i < w->r[s]; i++) w->bit[d][i][j] = w->bit[s][i][v[j]];
		/* rows of the destination beyond the source's row count: the operation does not define them; resynchronise */
		for (i = w->r[s]; i < w->r[d]; i++) for (j = 0; j < w->c[d]; j++) w->bit[d][i][j] = (unsigned char) of_mod2dense_get (D, (UINT32) i, (UINT32) j);
		break; }
	case D_XOR:
		of_mod2dense_xor_rows (S, (UINT16) o->i, (UINT16) o->j);
		for (j = 0; j < w->c[s]; j++) w->bit[s][o->j][j] ^= w->bit[s][o->i][j];
		break;
	}
	if (check) d_check (w, DKN[o->kind]);
}
static vf_h128 d_digest (void *wv)
{
	dw_t *w = wv; vf_h128 h; int t, i;
	vf_h_init (&h);
	for (t = 0; t < 2; t++) {
		vf_h_bytes (&h, w->bit[t], sizeof w->bit[t]);
		for (i = 0; i < w->r[t]; i++) vf_h_bytes (&h, w->m[t]->row[i], sizeof (of_mod2word) * w->m[t]->n_words);	/* includes the padding bits */
	}
	return h;
}
static void d_describe (const bfs_hist *h, void *cfg, char *out, size_t sz)
{
	dcfg_t *c = cfg;
	size_t l = (size_t) snprintf (out, sz, "ops dims=%dx%d,%dx%d seq=", c->ra, c->ca, c->rb, c->cb);
	int i;
	for (i = 0; i < h->len && l + 8 < sz; i++) l += (size_t) snprintf (out + l, sz - l, "%d,", h->ops[i]);
	if (out != g_desc) snprintf (g_desc, sizeof g_desc, "%s", out);
}
static void d_addop (int kind, int src, int i, int j, const int *vec, int cvec)
{
	dop_t o; memset (&o, 0, sizeof o);
	o.kind = kind; o.src = src; o.i = i; o.j = j; o.cvec = cvec;
	if (vec) memcpy (o.vec, vec, sizeof o.vec);
	DOPS[NDOPS++] = o;
}
static void d_build_ops (const dcfg_t *c)
{
	int s, i, j, x;
	NDOPS = 0;
	for (s = 0; s < 2; s++) {
		int rs = s ? c->rb : c->ra, cs = s ? c->cb : c->ca, rd = s ? c->ra : c->rb, cd = s ? c->ca : c->cb;
		int cols[6] = {0, 30, 31, 32, 63, cs - 1}, rows[2] = {0, rs - 1}, ci, ri, seen[72] = {0};
		for (ri = 0; ri < (rs > 1 ? 2 : 1); ri++) { memset (seen, 0, sizeof seen); for (ci = 0; ci < 6; ci++) { j = cols[ci]; if (j < 0 || j >= cs || seen[j]) continue; seen[j] = 1; if (s == 1 && ci != 0 && ci != 5) continue; d_addop (D_FLIP, s, rows[ri], j, NULL, 0); if (s == 0 && (ci == 2 || ci == 3)) d_addop (D_SET1, s, rows[ri], j, NULL, 0); } }
		d_addop (D_CLEAR, s, 0, 0, NULL, 0);
		if (rs <= rd && cs <= cd) d_addop (D_COPY, s, 0, 0, NULL, 0);
		if (cs <= cd) { int tot = 1, v[4] = {0, 0, 0, 0}; for (i = 0; i < rd; i++) tot *= rs; for (x = 0; x < tot; x++) { int y = x; for (i = 0; i < rd; i++) { v[i] = y % rs; y /= rs; } d_addop (D_COPYROWS, s, 0, 0, v, 0); } }
		if (rs <= rd) for (x = 0; x < 5; x++) d_addop (D_COPYCOLS, s, 0, 0, NULL, x);
		if (s == 0) for (i = 0; i < rs; i++) for (j = 0; j < rs; j++) if (i != j) d_addop (D_XOR, s, i, j, NULL, 0);
	}
}
static dcfg_t DCF[64]; static int NDCF, g_depth; static long g_cap;
static void ops_item (long it, void *arg)
{
	bfs_sys s; char tag[64];
	(void) arg;
	vf_slot_set_prop ("C18");
	memset (&s, 0, sizeof s);
	DC = DCF[it]; d_build_ops (&DC);
	s.nops = NDOPS; s.fresh = d_fresh; s.enabled = d_enabled; s.apply = d_apply; s.digest = d_digest; s.destroy = d_destroy; s.describe = d_describe;
	s.maxdepth = g_depth; s.statecap = g_cap; s.audits = 10;
	snprintf (tag, sizeof tag, "dense %dx%d,%dx%d", DC.ra, DC.ca, DC.rb, DC.cb);
	bfs_run (&s, &DC, tag);
	vf_stat_add (st_states, s.states); vf_stat_add (st_trans, s.transitions); vf_stat_add (st_exec, s.executions); vf_stat_add (st_merges, s.merges); vf_stat_add (st_self, s.selfloops); vf_stat_add (st_audits, s.audited);
	if (s.capped == 1 || s.capped == 3) vf_incomplete ("%s: %s (states=%ld)", tag, s.capped == 1 ? "state cap" : "deadline", s.states);
	vf_note ("%s: alphabet=%d states=%ld transitions=%ld depth<=%d%s", tag, NDOPS, s.states, s.transitions, g_depth, s.capped == 2 ? " (depth bound reached, by design)" : " (closure)");
	{ char nm[64]; snprintf (nm, sizeof nm, "ops-states:cols%%32=%d", DC.ca % 32); vf_outcome (nm, s.states); }
}

/* ============================================================ popcount mode */
static int popc (uint64_t x) { int n = 0; while (x) { n += (int) (x & 1); x >>= 1; } return n; }
static void pop_item (long it, void *arg)
{
	uint64_t lo = (uint64_t) it << 24, hi = lo + ((uint64_t) 1 << 24), w;
	long bad32 = 0, badt = 0, badn = 0; uint64_t f32 = 0, ft = 0, fn = 0;
	(void) arg;
	vf_slot_set_prop ("C18");
	snprintf (g_desc, sizeof g_desc, "popcnt chunk=%ld", it); memcpy (vf_slot (), g_desc, sizeof g_desc);
	for (w = lo; w < hi; w++) {
		int want = __builtin_popcountll (w);
		if ((w & 0xFFFFF) == 0) vf_heartbeat ();
		if ((int) of_hweight32 ((UINT32) w) != want) { if (!bad32++) f32 = w; }
		if ((int) of_hweight32_table ((UINT32) w) != want) { if (!badt++) ft = w; }
		if ((int) of_hweight32_naive ((UINT32) w) != want) { if (!badn++) fn = w; }
	}
	if (bad32) vf_viol ("C18", "fn=of_hweight32|kind=wrong-popcount", "popcnt w=0x%llx (%ld wrong in chunk %ld)", (unsigned long long) f32, bad32, it);
	if (badt) vf_viol ("C18", "fn=of_hweight32_table|kind=wrong-popcount", "popcnt w=0x%llx (%ld wrong in chunk %ld)", (unsigned long long) ft, badt, it);
	if (badn) vf_viol ("C18", "fn=of_hweight32_naive|kind=wrong-popcount", "popcnt w=0x%llx (%ld wrong in chunk %ld)", (unsigned long long) fn, badn, it);
	vf_stat_add (st_trans, 3L << 24); vf_stat_add (st_states, 1L << 24);
	if (it == 0) {
		int i, b, n;
		uint64_t pats[600]; int np = 0;
		for (i = 0; i < 256; i++) if ((int) of_hweight8_table ((UINT8) i) != popc ((uint64_t) i)) vf_viol ("C18", "fn=of_hweight8_table|kind=wrong-popcount", "popcnt w=0x%x", i);
		pats[np++] = 0; pats[np++] = ~(uint64_t) 0; pats[np++] = 0x5555555555555555ULL; pats[np++] = 0xAAAAAAAAAAAAAAAAULL; pats[np++] = 0x00000000FFFFFFFFULL; pats[np++] = 0xFFFFFFFF00000000ULL;
		for (b = 0; b < 64; b++) { pats[np++] = (uint64_t) 1 << b; pats[np++] = ~((uint64_t) 1 << b); pats[np++] = ((uint64_t) 1 << b) - 1; pats[np++] = ~(((uint64_t) 1 << b) - 1); }
		for (i = 0; i < np; i++) if (of_popcount_3 (pats[i]) != popc (pats[i])) vf_viol ("C18", "fn=of_popcount_3|kind=wrong-popcount", "popcnt w=0x%llx", (unsigned long long) pats[i]);
		/* of_hweight_array: size in bits, every size 1..200, word patterns */
		for (n = 1; n <= 200; n++)
			for (i = 0; i < np; i += 7) {
				UINT32 arr[8]; int k, want = 0, nw = (n + 31) / 32;
				for (k = 0; k < 8; k++) arr[k] = (UINT32) (pats[(i + k) % np] >> (k & 1 ? 32 : 0));
				for (k = 0; k < nw; k++) want += popc (arr[k]);
				if ((int) of_hweight_array (arr, n) != want) { vf_viol ("C18", "fn=of_hweight_array|kind=wrong-popcount", "popcnt array size=%d pat=%d", n, i); break; }
			}
		vf_stat_add (st_trans, 256 + np + 200 * (np / 7));
	}
}

/* ============================================================ solver mode */
static int LENS[7] = {1, 8, 9, 5, 6, 7, 13};
#define NLENS_SMALL 3
#define NLENS_ALL 7
static void solve_case (int p, int q, const uint64_t *rows /* p rows, bit j = column j (q<=64) or NULL for embedded */, const bitmat *Mbig, int len, int nullrhs, const char *desc)
{
	/* ONE control block per worker, reused by every solve (never re-zeroed): the solver must not depend on what an
	 * earlier call left in its scratch fields (nb_tmp_symbols, tmp_tab_symbols), as a long-lived session would expose */
	static of_linear_binary_code_cb_t cb;
	static void *tmp_static[4096];
	of_mod2dense *m = of_mod2dense_allocate ((UINT32) p, (UINT32) q);
	void **ct = calloc ((size_t) p, sizeof (void *)), **vt = calloc ((size_t) q, sizeof (void *)), **tmp = tmp_static;
	unsigned char *x = malloc ((size_t) q * len);
	bitmat *R = bm_new (p, q);
	int i, j, b, rank;
	of_status_t st;
	char sig[160];
	{
		/* the control block is shared with the previous solve of this worker: a replayable case names both */
		static char prev[200];
		snprintf (g_desc, sizeof g_desc, "%s%s%s", desc, prev[0] ? " || prev: " : "", prev);
		memcpy (vf_slot (), g_desc, sizeof g_desc);
		snprintf (prev, sizeof prev, "%.190s", desc);
	}
	cb.encoding_symbol_length = (UINT32) len; cb.tmp_tab_symbols = tmp;
	/* nullrhs = 2: all variables equal, so that every equation of even weight has a null sum and is handed over without
	 * a constant term (with distinct powers of two no non-empty equation ever sums to zero) */
	for (j = 0; j < q; j++) for (b = 0; b < len; b++) x[j * len + b] = (unsigned char) (nullrhs == 2 ? (b == 0 ? 1 : (vf_mix64 ((uint64_t) b) >> 9)) : b == 0 ? (q <= 8 ? (1u << j) : (unsigned) (j + 1)) : (vf_mix64 ((uint64_t) j * 977 + (uint64_t) b) >> 9));
	for (i = 0; i < p; i++) {
		unsigned char *rhs = calloc (1, (size_t) len);
		int nz = 0;
		for (j = 0; j < q; j++) {
			int bit = rows ? (int) ((rows[i] >> j) & 1) : bm_get (Mbig, i, j);
			if (!bit) continue;
			of_mod2dense_set (m, (UINT32) i, (UINT32) j, 1); bm_set (R, i, j);
			for (b = 0; b < len; b++) rhs[b] ^= x[j * len + b];
		}
		for (b = 0; b < len; b++) if (rhs[b]) nz = 1;
		if (nullrhs && !nz) { free (rhs); ct[i] = NULL; } else ct[i] = rhs;
	}
	rank = gf2_rank (R);
	st = of_linear_binary_code_solve_dense_system (&cb, m, ct, vt);
	vf_stat_add (st_trans, 1);
	if ((st == OF_STATUS_OK) != (rank == q)) { snprintf (sig, sizeof sig, "fn=solve_dense_system|kind=%s|nullrhs=%d", rank == q ? "full-rank-but-failure" : "rank-deficient-but-OK", nullrhs); dviol (sig); }
	else if (st == OF_STATUS_OK)
		for (j = 0; j < q; j++) {
			if (!vt[j]) {
				int zero = 1;
				for (b = 0; b < len; b++) if (x[j * len + b]) zero = 0;
				if (!zero || !nullrhs) { snprintf (sig, sizeof sig, "fn=solve_dense_system|kind=variable-returned-NULL|nullrhs=%d", nullrhs); dviol (sig); break; }
			} else if (memcmp (vt[j], x + j * len, (size_t) len)) { snprintf (sig, sizeof sig, "fn=solve_dense_system|kind=wrong-solution|nullrhs=%d|len=%d", nullrhs, len); dviol (sig); break; }
		}
	/* the solver pivots by exchanging row pointers: the dense operations must still mean the same on such a matrix */
	{
		of_mod2dense *r2 = of_mod2dense_allocate ((UINT32) p, (UINT32) q), *f = of_mod2dense_allocate ((UINT32) p, (UINT32) q);
		int bad = 0;
		for (i = 0; i < p; i++) for (j = 0; j < q; j++) { if ((i * 3 + j) % 4 == 0) of_mod2dense_set (r2, (UINT32) i, (UINT32) j, 1); if ((i + 2 * j) % 3 == 0) of_mod2dense_set (f, (UINT32) i, (UINT32) j, 1); }
		of_mod2dense_copy (m, r2);
		for (i = 0; i < p && !bad; i++) {
			int wt = 0;
			for (j = 0; j < q; j++) { int g = (int) of_mod2dense_get (m, (UINT32) i, (UINT32) j); wt += g; if (g != (int) of_mod2dense_get (r2, (UINT32) i, (UINT32) j)) { dviol ("fn=of_mod2dense_copy|kind=copy-of-a-solved-matrix-differs"); bad = 1; break; } }
			if (!bad && (int) of_mod2dense_row_weight (m, (UINT32) i) != wt) { dviol ("fn=of_mod2dense_row_weight|kind=wrong-on-a-solved-matrix"); bad = 1; }
		}
		of_mod2dense_copy (f, m);
		for (i = 0; i < p && !bad; i++) for (j = 0; j < q; j++) if (of_mod2dense_get (m, (UINT32) i, (UINT32) j) != of_mod2dense_get (f, (UINT32) i, (UINT32) j)) { dviol ("fn=of_mod2dense_copy|kind=copy-into-a-solved-matrix-differs"); bad = 1; break; }
		of_mod2dense_free (r2); of_mod2dense_free (f);
	}
	for (i = 0; i < p; i++) free (ct[i]);
	for (j = 0; j < q; j++) { int dupl = 0; for (i = 0; i < j; i++) if (vt[i] == vt[j]) dupl = 1; if (!dupl) free (vt[j]); }
	free (ct); free (vt); free (x); bm_free (R);
	of_mod2dense_free (m);
}
typedef struct { int p, q; } pq_t;
static pq_t PQ[64]; static int NPQ;
static int g_solver_thorough;
static void solver_item (long it, void *arg)
{
	(void) arg;
	vf_slot_set_prop ("C18");
	if (it < NPQ) {
		int p = PQ[it].p, q = PQ[it].q, li, nr;
		uint64_t tot = (uint64_t) 1 << (p * q), x;
		for (x = 0; x < tot; x++) {
			uint64_t rows[24]; int i; char d[128];
			for (i = 0; i < p; i++) rows[i] = (x >> (i * q)) & (((uint64_t) 1 << q) - 1);
			for (li = 0; li < (p >= 9 ? NLENS_ALL : NLENS_SMALL); li++) for (nr = 0; nr < 3; nr++) {
				if (!g_solver_thorough && li != (int) (x % (p >= 9 ? NLENS_ALL : NLENS_SMALL)) && tot > 70000) continue;
				snprintf (d, sizeof d, "solver p=%d q=%d matrix=0x%llx len=%d nullrhs=%d", p, q, (unsigned long long) x, LENS[li], nr);
				solve_case (p, q, rows, NULL, LENS[li], nr, d);
			}
			vf_stat_add (st_states, 1);
		}
	} else {
		/* embedded 4x4 blocks at columns 30..33 (it == NPQ) and 62..65 (it == NPQ+1) of a 66x66 identity */
		int off = it == NPQ ? 30 : 62, x;
		for (x = 0; x < 65536; x++) {
			bitmat *M = bm_new (66, 66); int i, j; char d[128];
			if (!g_solver_thorough && (x & 3)) { bm_free (M); continue; }
			for (i = 0; i < 66; i++) bm_set (M, i, i);
			for (i = 0; i < 4; i++) for (j = 0; j < 4; j++) { if ((x >> (i * 4 + j)) & 1) bm_set (M, off + i, off + j); else bm_clr (M, off + i, off + j); }
			snprintf (d, sizeof d, "solver embedded off=%d block=0x%x len=9 nullrhs=%d", off, x, x % 3);
			solve_case (66, 66, NULL, M, 9, x % 3, d);
			bm_free (M);
			vf_stat_add (st_states, 1);
		}
	}
}


/* ============================================================ big mode: large matrices, long symbols, many unknowns
 * The searches above close a small alphabet on matrices of a few rows; what depends on magnitude (more than two words
 * per row, more than 255 rows, 8-way and wider unrolling over long symbols, dozens of unknowns) is enumerated here as
 * a structured family: shape x content pattern, each followed by ONE fixed script of every dense operation, and
 * solver systems (structured matrices x sizes x symbol lengths) with known solutions. */
typedef struct { of_mod2dense *m; bitmat *M; int R, C; } bd_t;
static unsigned bhsh (unsigned a, unsigned b) { unsigned x = a * 2654435761u ^ (b + 0x9E3779B9u) * 40503u; x ^= x >> 15; x *= 2246822519u; x ^= x >> 13; return x; }
static int bmember (int pat, int R, int C, int i, int j)
{
	switch (pat) {
	case 0: return R >= C ? (i % C == j) : (j % R == i);
	case 1: return i == 0 || j == 0 || i == R - 1 || j == C - 1;
	case 2: return (i % 31) == (j % 33);
	case 3: return 1;
	case 4: return bhsh ((unsigned) i, (unsigned) j) & 1;
	default: return (j % 32) == 31 || (j % 32) == 0 || j == C - 1;	/* word boundaries */
	}
}
static void bd_new (bd_t *a, int R, int C) { a->R = R; a->C = C; a->m = of_mod2dense_allocate ((UINT32) R, (UINT32) C); a->M = bm_new (R, C); }
static void bd_free (bd_t *a) { of_mod2dense_free (a->m); bm_free (a->M); }
static void bd_put (bd_t *a, int i, int j, int v) { if (v) bm_set (a->M, i, j); else bm_clr (a->M, i, j); }
static const char *g_bstep = "";
static void bviol (const char *kind) { char sig[200]; snprintf (sig, sizeof sig, "big|after=%s|kind=%s", g_bstep, kind); dviol (sig); }
static int bd_check (bd_t *a, const char *after)
{
	int i, j, ig;
	long ones = 0;
	int *cw = calloc ((size_t) a->C, sizeof (int));
	g_bstep = after;
	vf_heartbeat ();
	for (i = 0; i < a->R; i++) {
		int wt = 0;
		for (j = 0; j < a->C; j++) {
			int g = (int) of_mod2dense_get (a->m, (UINT32) i, (UINT32) j);
			if (g != bm_get (a->M, i, j)) { bviol ("cell-differs-from-model"); free (cw); return 0; }
			wt += g; cw[j] += g;
		}
		ones += wt;
		if ((int) of_mod2dense_row_weight (a->m, (UINT32) i) != wt) { bviol ("row_weight-wrong"); free (cw); return 0; }
		if ((of_mod2dense_row_is_empty (a->m, (UINT32) i) != 0) != (wt == 0)) { bviol ("row_is_empty-wrong"); free (cw); return 0; }
		if ((int) of_hweight_array ((UINT32 *) a->m->row[i], a->C) != wt) { bviol ("hweight_array-of-row-wrong"); free (cw); return 0; }
		for (ig = 0; ig <= a->C - 1; ig += 32) {
			int wi = 0;
			if (a->C > 600 && (ig / 32) % 5 && ig + 96 < a->C) continue;
			for (j = ig; j < a->C; j++) wi += bm_get (a->M, i, j);
			if ((int) of_mod2dense_row_weight_ignore_first (a->m, (UINT32) i, (UINT32) ig) != wi) { bviol ("row_weight_ignore_first-wrong"); free (cw); return 0; }
		}
	}
	for (j = 0; j < a->C; j++) if ((int) of_mod2dense_col_weight (a->m, (UINT32) j) != cw[j]) { bviol ("col_weight-wrong"); free (cw); return 0; }
	free (cw);
	if (of_mod2dense_density (a->m) != (double) ones / ((double) a->R * a->C)) { bviol ("density-wrong"); return 0; }
	return 1;
}
static void bd_dirty (bd_t *b) { int i, j; for (i = 0; i < b->R; i++) for (j = 0; j < b->C; j++) if (((i * 3 + j) % 5) == 0) { of_mod2dense_set (b->m, (UINT32) i, (UINT32) j, 1); bd_put (b, i, j, 1); } }
static void bd_zero_model (bd_t *b) { memset (b->M->w, 0, sizeof (uint64_t) * (size_t) b->M->rows * b->M->W); }

static const struct { int R, C; } BSH[] = {{3, 200}, {70, 70}, {300, 65}, {260, 130}, {2, 1000}, {1000, 2}, {65, 1}, {9, 257}, {40, 96}, {33, 33}, {5, 4097}, {600, 40}};
#define NBSH ((int) (sizeof BSH / sizeof BSH[0]))
#define NBPAT 6
static void big_ops_script_rc (int R, int C, int pat);
static void big_ops_script (int si, int pat) { big_ops_script_rc (BSH[si].R, BSH[si].C, pat); }
/* contiguous sweep of the column count: EVERY C in 1..300 (thorough ..700) with a row count derived from C, pattern rotating */
static int SWC_HI = 300;
static void sweep_ops_item (long it, void *arg)
{
	int C = 1 + (int) it, R = 2 + (C * 7) % 23;
	(void) arg;
	vf_slot_set_prop ("C18");
	big_ops_script_rc (R, C, C % NBPAT);
	if (C % 5 == 0) big_ops_script_rc (C, 2 + (C * 3) % 19, (C + 1) % NBPAT);	/* and as a row count */
}
static void big_ops_script_rc (int R, int C, int pat)
{
	int i, j, v;
	bd_t A, B;
	snprintf (g_desc, sizeof g_desc, "bigops shape=%dx%d pattern=%d", R, C, pat);
	memcpy (vf_slot (), g_desc, sizeof g_desc);
	bd_new (&A, R, C);
	if (!bd_check (&A, "allocate")) goto out;
	for (i = 0; i < R; i++) for (j = 0; j < C; j++) if (bmember (pat, R, C, i, j)) { if (of_mod2dense_set (A.m, (UINT32) i, (UINT32) j, 1) != 0) { g_bstep = "set"; bviol ("in-range-set-returned-error"); } bd_put (&A, i, j, 1); }
	vf_stat_add (st_trans, (long) R * C);
	if (!bd_check (&A, "set")) goto out;
	for (i = 0; i < R; i++) for (j = (i % 3); j < C; j += 3) { UINT32 b = of_mod2dense_flip (A.m, (UINT32) i, (UINT32) j); bd_put (&A, i, j, !bm_get (A.M, i, j)); if ((int) b != bm_get (A.M, i, j)) { g_bstep = "flip"; bviol ("flip-return-value-wrong"); goto out; } }
	if (!bd_check (&A, "flip")) goto out;
	for (i = 0; i < R; i++) for (j = (i % 7); j < C; j += 7) { of_mod2dense_set (A.m, (UINT32) i, (UINT32) j, 0); bd_put (&A, i, j, 0); }
	if (!bd_check (&A, "set0")) goto out;
	/* xor_rows: neighbours, first<->last, across the 255/256 border */
	for (v = 0; v < 6 && R > 1; v++) {
		int from = v == 0 ? 0 : v == 1 ? R - 1 : v == 2 ? R / 2 : v == 3 ? (R > 256 ? 255 : 1 % R) : v == 4 ? (R > 257 ? 257 : R - 1) : R / 3;
		int to = v == 0 ? R - 1 : v == 1 ? 0 : v == 2 ? (R / 2 + 1) % R : v == 3 ? (R > 256 ? 256 : 0) : v == 4 ? 0 : (R / 3 + R / 2) % R;
		if (from == to) continue;
		of_mod2dense_xor_rows (A.m, (UINT16) from, (UINT16) to);
		for (j = 0; j < C; j++) if (bm_get (A.M, from, j)) bd_put (&A, to, j, !bm_get (A.M, to, j));
		vf_stat_add (st_trans, 1);
	}
	if (!bd_check (&A, "xor_rows")) goto out;
	/* copy into used matrices: same size, and larger in both dimensions */
	for (v = 0; v < 2; v++) {
		bd_new (&B, R + v, C + 40 * v);
		bd_dirty (&B);
		of_mod2dense_copy (A.m, B.m); bd_zero_model (&B);
		for (i = 0; i < R; i++) for (j = 0; j < C; j++) bd_put (&B, i, j, bm_get (A.M, i, j));
		vf_stat_add (st_trans, 1);
		if (!bd_check (&B, v ? "copy-into-larger" : "copy")) { bd_free (&B); goto out; }
		bd_free (&B);
	}
	/* copyrows: reversed and repeating row vectors into a used matrix with more columns */
	for (v = 0; v < 2; v++) {
		UINT32 *rows = malloc (sizeof (UINT32) * (size_t) (R + 2));
		bd_new (&B, R + 2 * v, C + 33 * v);
		bd_dirty (&B);
		for (i = 0; i < B.R; i++) rows[i] = (UINT32) (v ? (i * 7 + 3) % R : R - 1 - i);
		of_mod2dense_copyrows (A.m, B.m, rows); bd_zero_model (&B);
		for (i = 0; i < B.R; i++) for (j = 0; j < C; j++) bd_put (&B, i, j, bm_get (A.M, (int) rows[i], j));
		free (rows);
		vf_stat_add (st_trans, 1);
		if (!bd_check (&B, "copyrows")) { bd_free (&B); goto out; }
		bd_free (&B);
	}
	/* copycols: reversed / repeating / shifted column vectors into a used matrix with the same number of rows */
	for (v = 0; v < 3; v++) {
		int C2 = v == 0 ? C : v == 1 ? C + 7 : (C > 1 ? C - 1 : C);
		UINT32 *cols = malloc (sizeof (UINT32) * (size_t) C2);
		bd_new (&B, R, C2);
		bd_dirty (&B);
		for (j = 0; j < C2; j++) cols[j] = (UINT32) (v == 0 ? C - 1 - j : v == 1 ? (j * 5 + 2) % C : (j + 1) % C);
		of_mod2dense_copycols (A.m, B.m, cols);
		for (i = 0; i < R; i++) for (j = 0; j < C2; j++) bd_put (&B, i, j, bm_get (A.M, i, (int) cols[j]));
		free (cols);
		vf_stat_add (st_trans, 1);
		if (!bd_check (&B, "copycols")) { bd_free (&B); goto out; }
		bd_free (&B);
	}
	of_mod2dense_clear (A.m); bd_zero_model (&A);
	if (!bd_check (&A, "clear")) goto out;
out:
	bd_free (&A);
	vf_stat_add (st_states, 1);
}

/* solver families: family x q x (p - q) x symbol length x NULL right-hand sides */
static const int BQ[] = {9, 12, 16, 31, 32, 33, 40, 63, 64, 65, 100, 130};
static const int BLEN[] = {1, 4, 13, 32, 33, 64, 100, 129, 1000};
#define NBQ ((int) (sizeof BQ / sizeof BQ[0]))
#define NBLEN ((int) (sizeof BLEN / sizeof BLEN[0]))
#define NBFAM 12
static const char *BFN[NBFAM] = {"identity", "lower-all-ones", "upper-all-ones", "staircase", "staircase+dense-first-column", "reversed-identity", "hashed-half", "hashed-eighth+identity", "duplicate-column", "zero-column", "lower-all-ones-rows-reversed", "dense-last-row-only"};
static bitmat *big_family (int fam, int p, int q)
{
	bitmat *M = bm_new (p, q);
	int i, j;
	for (i = 0; i < p; i++) for (j = 0; j < q; j++) {
		int ii = i < q ? i : (i * 7) % q;	/* the p - q extra rows repeat earlier ones */
		int b;
		switch (fam) {
		case 0: b = ii == j; break;
		case 1: b = j <= ii; break;
		case 2: b = j >= ii; break;
		case 3: b = j == ii || j + 1 == ii; break;
		case 4: b = j == ii || j + 1 == ii || j == 0; break;
		case 5: b = j == q - 1 - ii; break;
		case 6: b = (bhsh ((unsigned) ii, (unsigned) j) >> 3) & 1; break;
		case 7: b = j == ii || (bhsh ((unsigned) ii, (unsigned) j) % 8) == 0; break;
		case 8: b = j <= ii; break;	/* the caller then makes the last column a copy of the first */
		case 9: b = j == q / 2 ? 0 : (j <= ii); break;
		case 10: b = j <= (q - 1 - ii); break;
		default: b = (ii == q - 1) ? 1 : (ii == j); break;
		}
		if (b) bm_set (M, i, j);
	}
	return M;
}
static void big_solver_item (int fam, int qi, int extra)
{
	int q = BQ[qi], p = q + extra, li, nr;
	bitmat *M = big_family (fam, p, q);
	if (fam == 8) { int i; for (i = 0; i < p; i++) { if (bm_get (M, i, 0)) bm_set (M, i, q - 1); else bm_clr (M, i, q - 1); } }	/* last column := first column */
	for (li = 0; li < NBLEN; li++) for (nr = 0; nr < 3; nr++) {
		char d[160];
		if (q > 65 && BLEN[li] == 1000 && (fam % 3)) continue;
		snprintf (d, sizeof d, "bigsolver fam=%d q=%d extra=%d len=%d nullrhs=%d", fam, q, extra, BLEN[li], nr);
		solve_case (p, q, NULL, M, BLEN[li], nr, d);
	}
	bm_free (M);
	vf_stat_add (st_states, 1);
}
/* contiguous sweep: EVERY number of unknowns 5..200 (thorough ..400) on four families, p - q in {0, 3}, symbol length and
 * right-hand-side mode rotating with q (numbers of unknowns that are neither small nor next to a word boundary) */
static int SWQ_LO = 5, SWQ_HI = 200;
static void sweep_solver_item (long it, void *arg)
{
	static const int FAM[] = {6, 7, 1, 5}, LEN[] = {13, 33, 8, 1};
	int q = SWQ_LO + (int) it, f, extra;
	(void) arg;
	vf_slot_set_prop ("C18");
	for (f = 0; f < 4; f++) for (extra = 0; extra <= 3; extra += 3) {
		char d[160]; int len = LEN[(q + f) % 4], nr = (q + f + extra) % 3;
		bitmat *M = big_family (FAM[f], q + extra, q);
		snprintf (d, sizeof d, "bigsolver fam=%d q=%d extra=%d len=%d nullrhs=%d", FAM[f], q, extra, len, nr);
		solve_case (q + extra, q, NULL, M, len, nr, d);
		bm_free (M);
	}
	vf_stat_add (st_states, 1);
}
static void big_item (long it, void *arg)
{
	(void) arg;
	vf_slot_set_prop ("C18");
	if (it < NBSH * NBPAT) big_ops_script ((int) (it / NBPAT), (int) (it % NBPAT));
	else { long x = it - NBSH * NBPAT; big_solver_item ((int) (x / (NBQ * 2)), (int) ((x / 2) % NBQ), (x & 1) ? 3 : 0); }
}

static void replay_one (const char *cs);
static void item_replay (long it, void *arg)
{
	const char *cs = vf_replay_case (), *pv;
	(void) it; (void) arg;
	vf_slot_set_prop ("C18");
	if ((pv = strstr (cs, " || prev: "))) {	/* solver cases: the previous solve on the same control block comes first */
		static char cur[300];
		snprintf (cur, sizeof cur, "%.*s", (int) (pv - cs), cs);
		replay_one (pv + 10);
		replay_one (cur);
		return;
	}
	replay_one (cs);
}
static void replay_one (const char *cs)
{
	if (!strncmp (cs, "ops ", 4)) {
		bfs_hist h; bfs_sys s; const char *p;
		memset (&h, 0, sizeof h); memset (&s, 0, sizeof s);
		if (sscanf (cs, "ops dims=%dx%d,%dx%d", &DC.ra, &DC.ca, &DC.rb, &DC.cb) != 4) return;
		d_build_ops (&DC);
		p = strstr (cs, "seq=");
		if (p) { p += 4; while (*p && h.len < BFS_MAXD) { h.ops[h.len++] = (uint16_t) strtol (p, (char **) &p, 10); if (*p == ',') p++; else break; } }
		s.nops = NDOPS; s.fresh = d_fresh; s.enabled = d_enabled; s.apply = d_apply; s.digest = d_digest; s.destroy = d_destroy; s.describe = d_describe;
		bfs_exec (&s, &DC, &h, NULL, NULL);
	} else if (!strncmp (cs, "popcnt w=", 9)) {
		unsigned long long w = strtoull (cs + 9, NULL, 16);
		int want = popc (w & 0xFFFFFFFFULL);
		snprintf (g_desc, sizeof g_desc, "%s", cs);
		if ((int) of_hweight32 ((UINT32) w) != want) dviol ("fn=of_hweight32|kind=wrong-popcount");
		if ((int) of_hweight32_table ((UINT32) w) != want) dviol ("fn=of_hweight32_table|kind=wrong-popcount");
		if ((int) of_hweight32_naive ((UINT32) w) != want) dviol ("fn=of_hweight32_naive|kind=wrong-popcount");
	} else if (!strncmp (cs, "solver p=", 9)) {
		int p, q, len, nr, i; unsigned long long x; uint64_t rows[24];
		if (sscanf (cs, "solver p=%d q=%d matrix=0x%llx len=%d nullrhs=%d", &p, &q, &x, &len, &nr) != 5) return;
		for (i = 0; i < p; i++) rows[i] = (x >> (i * q)) & (((uint64_t) 1 << q) - 1);
		solve_case (p, q, rows, NULL, len, nr, cs);
	} else if (!strncmp (cs, "bigops ", 7)) {
		int R, C, pat, si;
		if (sscanf (cs, "bigops shape=%dx%d pattern=%d", &R, &C, &pat) != 3) return;
		(void) si; big_ops_script_rc (R, C, pat);
	} else if (!strncmp (cs, "bigsolver ", 10)) {
		int fam, q, extra, len, nr; bitmat *M;
		if (sscanf (cs, "bigsolver fam=%d q=%d extra=%d len=%d nullrhs=%d", &fam, &q, &extra, &len, &nr) != 5) return;
		M = big_family (fam, q + extra, q);
		if (fam == 8) { int i; for (i = 0; i < q + extra; i++) { if (bm_get (M, i, 0)) bm_set (M, i, q - 1); else bm_clr (M, i, q - 1); } }
		solve_case (q + extra, q, NULL, M, len, nr, cs);
		bm_free (M);
	} else if (!strncmp (cs, "solver embedded", 15)) {
		int off, x, nr, i, j; bitmat *M = bm_new (66, 66);
		if (sscanf (cs, "solver embedded off=%d block=0x%x len=9 nullrhs=%d", &off, &x, &nr) != 3) return;
		for (i = 0; i < 66; i++) bm_set (M, i, i);
		for (i = 0; i < 4; i++) for (j = 0; j < 4; j++) { if ((x >> (i * 4 + j)) & 1) bm_set (M, off + i, off + j); else bm_clr (M, off + i, off + j); }
		solve_case (66, 66, NULL, M, 9, nr, cs);
		bm_free (M);
	}
}

int main (int argc, char **argv)
{
	const char *mode;
	int thorough, p, q;
	vf_init (argc, argv);
	thorough = vf_tier_thorough ();
	mode = vf_opt ("mode", "ops");
	st_states = vf_stat_id ("states"); st_trans = vf_stat_id ("transitions"); st_exec = vf_stat_id ("executions"); st_merges = vf_stat_id ("merges");
	st_dn = vf_stat_id ("distinct_nontrivial"); st_self = vf_stat_id ("selfloops"); st_audits = vf_stat_id ("merge_audits");
	if (vf_replay_case ()) { vf_pool_run (1, item_replay, NULL, 300); vf_finish (); return 0; }
	if (!strcmp (mode, "ops")) {
		static const int cols[] = {1, 31, 32, 33, 64, 65};
		int ci;
		g_depth = (int) vf_opt_long ("depth", thorough ? 4 : 3); g_cap = thorough ? 2000000 : 400000;
		for (ci = 0; ci < 6; ci++) {
			int c = cols[ci], c2 = ci + 1 < 6 ? cols[ci + 1] : 66;
			dcfg_t a = {2, c, 2, c}, b = {1, c, 3, c2}, d = {3, c, 2, c}, e = {2, c, 3, c};
			DCF[NDCF++] = a; DCF[NDCF++] = b; DCF[NDCF++] = d; DCF[NDCF++] = e;
		}
		vf_pool_run (NDCF, ops_item, NULL, 0);
		vf_sample ("ops dims=2x33,2x33: alphabet = flip/set at cells (row 0/last) x (col 0,30,31,32,last), clear, copy, copyrows (all index vectors), copycols (5 column maps), xor_rows (all ordered row pairs); after every step all cells, weights, emptiness, density compared");
	} else if (!strcmp (mode, "big")) {
		vf_pool_run ((long) NBSH * NBPAT + (long) NBFAM * NBQ * 2, big_item, NULL, 0);
		if (vf_tier_thorough ()) { SWQ_HI = 400; SWC_HI = 700; }
		vf_pool_run (SWC_HI, sweep_ops_item, NULL, 0);
		vf_pool_run (SWQ_HI - SWQ_LO + 1, sweep_solver_item, NULL, 0);
		vf_outcome ("big_ops_scripts", NBSH * NBPAT); vf_outcome ("big_solver_systems", NBFAM * NBQ * 2); vf_outcome ("solver_sweep_unknowns", SWQ_HI - SWQ_LO + 1); vf_outcome ("ops_sweep_column_counts", SWC_HI);
		vf_sample ("bigsolver fam=1 (lower-all-ones) q=65 extra=3 len=129: status OK, 65 variables equal the known solution");
	} else if (!strcmp (mode, "popcnt")) {
		vf_pool_run (256, pop_item, NULL, 0);
		vf_sample ("popcnt: w=0x00000010 -> of_hweight32=%u of_hweight32_table=%u of_hweight32_naive=%u (reference 1)", of_hweight32 (0x10), of_hweight32_table (0x10), of_hweight32_naive (0x10));
	} else {
		g_solver_thorough = thorough;
		for (p = 1; p <= 4; p++) for (q = 1; q <= p; q++) { PQ[NPQ].p = p; PQ[NPQ].q = q; NPQ++; }
		for (q = 1; q <= 4; q++) { PQ[NPQ].p = 5; PQ[NPQ].q = q; NPQ++; }
		for (q = 1; q <= 3; q++) { PQ[NPQ].p = 6; PQ[NPQ].q = q; NPQ++; }
		/* tall systems: a pivot with eight or more rows to eliminate at once (8-way unrolled kernels) */
		PQ[NPQ].p = 9; PQ[NPQ].q = 1; NPQ++; PQ[NPQ].p = 10; PQ[NPQ].q = 1; NPQ++; PQ[NPQ].p = 12; PQ[NPQ].q = 1; NPQ++; PQ[NPQ].p = 17; PQ[NPQ].q = 1; NPQ++; PQ[NPQ].p = 9; PQ[NPQ].q = 2; NPQ++;
		vf_pool_run (NPQ + 2, solver_item, NULL, 0);
		vf_sample ("solver p=3 q=2 matrix=0x2d: rows {10,11,01}.. right-hand sides built from x_j = 1<<j; status OK <=> rank 2; variables compared with x");
	}
	vf_stat_add (st_exec, vf_stat_get (st_trans));
	vf_stat_add (st_dn, vf_stat_get (st_states));
	vf_finish ();
	return 0;
}
