/* h_codec.c — decoder explorer (DESIGN.md §3.1, §4 "shared decoder explorer").
 *
 * Explicit-state exploration of the REAL decoder API of codecs 1 (RS GF(2^8)), 2 (RS GF(2^m),
 * m=4/8) and 3 (LDPC-Staircase): alphabet { DWS(e) for every ESI (duplicates included),
 * SAS(S) for every subset S as first submission, FINISH (terminal) }, queries after every step,
 * release + application epilogue at every state. States are deduplicated by a digest of the
 * concrete library state + the reference model's state. Oracles of C01,C02,C03,C04,C07,C08,
 * C10,C11 are evaluated on every transition; each violation is attributed to its property.
 *
 * Modes (--mode):  bfs      all orders / duplicates / both APIs on small configurations
 *                  subsets  all 2^n received subsets via SAS+FIN and ascending DWS(+FIN)
 *                  large    deviation-bounded loss patterns + window/periodic families on big configurations
 *                  lens     symbol lengths x alignments on a reduced configuration list (C07)
 * --replay "<case>" re-executes one case in a straight line.
 */
#include <stddef.h>
#include "vf.h"
#include "ref.h"
#include "lib_common/of_openfec_api.h"
#include "lib_stable/reed-solomon_gf_2_8/of_reed-solomon_gf_2_8_includes.h"
#include "lib_stable/reed-solomon_gf_2_m/of_reed-solomon_gf_2_m_includes.h"
#include "lib_stable/ldpc_staircase/of_ldpc_includes.h"
#include "lib_stable/2d_parity_matrix/of_2d_parity_includes.h"
#include <ctype.h>
#include <unistd.h>
#include <stdarg.h>

/* ------------------------------------------------------------------ configuration */
typedef struct {
	int	codec, m, k, r, n, N1, seed, len, align;
	int	cbmode;		/* 0 none, 1 buffer for every ESI, 2 NULL for every ESI, 3 NULL for ESIs in Z */
	uint64_t Z;
} cfg_t;

enum { OP_FIN = 0x1000, OP_SAS = 0x2000 };
#define MAXOPS 40
typedef struct { uint8_t nops; uint8_t has_sas; uint8_t ops[MAXOPS]; uint64_t sas; } hist_t;	/* ops: ESI or 0xFF = FINISH */

/* ------------------------------------------------------------------ globals per configuration */
static cfg_t		G;
static unsigned char	**CW;		/* reference codeword: n symbols of len bytes */
static bitmat		*Href;		/* LDPC: RFC 5170 matrix (ESI-indexed columns) */
static int		g_randdev;	/* bound on rand() deviations explored at FINISH */
static const char	*PROP;
static int		is_asan;

static int g_maxdepth = 1000, g_nofinish;
static int st_states, st_trans, st_exec, st_merges, st_audits, st_selfloops, st_dn, st_cfgs, st_finish, st_randscripts, st_cb_calls, st_releases, st_quiet;

/* ------------------------------------------------------------------ rand() seam */
#define RANDMAX_SCRIPT 64
static int g_rand_script[RANDMAX_SCRIPT], g_rand_nscript, g_rand_calls, g_rand_total, g_rand_mod, g_rand_flip;
int rand (void)
{
	int i = g_rand_calls++;
	g_rand_total++;
	{
		/* the scripted answer fixes the residue modulo the number of repair symbols (all the library may depend on);
		 * every second call (which ones depends on the configuration) returns the LARGEST value <= RAND_MAX of that
		 * residue class, so that code scaling rand() instead of reducing it sees the top of the range too */
		int v = (i < g_rand_nscript && g_rand_script[i] >= 0) ? g_rand_script[i] : i;	/* default: rand()%r == i leaves the permutation unchanged */
		if (g_rand_mod > 0 && ((i + g_rand_flip) & 1)) return RAND_MAX - (int) (((long) RAND_MAX - v) % g_rand_mod);
		return v;
	}
}

/* ------------------------------------------------------------------ payload and reference codeword */
static int idlen_needed (const cfg_t *c) { return (c->codec == 2 && c->m == 4) ? (c->k + 1) / 2 : c->k; }

static void make_codeword (const cfg_t *c)
{
	int i, j, idl = idlen_needed (c);
	if (idl > c->len) idl = c->len;
	CW = malloc (sizeof (*CW) * (size_t) c->n);
	for (i = 0; i < c->n; i++) CW[i] = calloc (1, (size_t) c->len + 1);
	for (i = 0; i < c->k; i++) {
		/* identity part: position i is 1 (byte i, or nibble i for m=4) */
		if (c->codec == 2 && c->m == 4) { if (i / 2 < idl) CW[i][i / 2] |= (i & 1) ? 0x01 : 0x10; }
		else if (i < idl) CW[i][i] = 1;
		/* dense part */
		for (j = idl; j < c->len; j++) CW[i][j] = (unsigned char) (vf_mix64 ((uint64_t) i * 131 + (uint64_t) j * 7919 + 17) >> 13);
	}
	if (c->codec == 5) {
		/* 2D parity: the reference matrix is the library's own (its product structure is checked by h_enc --mode 2d);
		 * each check has its own repair symbol = XOR of the sources of the check */
		of_session_t *s = NULL;
		of_2d_parity_parameters_t p;
		int row, col;
		Href = bm_new (c->r, c->n);
		memset (&p, 0, sizeof p); p.nb_source_symbols = (UINT32) c->k; p.nb_repair_symbols = (UINT32) c->r; p.encoding_symbol_length = (UINT32) c->len;
		if (of_create_codec_instance (&s, OF_CODEC_2D_PARITY_MATRIX_STABLE, OF_ENCODER, 0) == OF_STATUS_OK && s) {
			if (of_set_fec_parameters (s, (of_parameters_t *) &p) == OF_STATUS_OK) {
				of_mod2sparse *m = ((of_2d_parity_cb_t *) s)->pchk_matrix;
				of_mod2entry *e;
				for (row = 0; row < c->r && m; row++)
					for (e = of_mod2sparse_first_in_row (m, row); !of_mod2sparse_at_end_row (e); e = of_mod2sparse_next_in_row (e)) {
						col = e->col < c->r ? e->col + c->k : e->col - c->r;
						if (col >= 0 && col < c->n) bm_set (Href, row, col);
					}
			}
			of_release_codec_instance (s);
		}
		for (row = 0; row < c->r; row++) {
			int rep = -1;
			for (col = c->k; col < c->n; col++) if (bm_get (Href, row, col)) rep = col;
			if (rep < 0) continue;
			for (i = 0; i < c->k; i++) if (bm_get (Href, row, i)) for (j = 0; j < c->len; j++) CW[rep][j] ^= CW[i][j];
		}
	} else if (c->codec == 3) {
		int row;
		Href = rfc5170_H (c->k, c->n, c->N1, (uint64_t) c->seed, NULL);
		bm_build_index (Href);	/* outside the sessions' allocation windows */
		for (row = 0; row < c->r; row++) {
			unsigned char *p = CW[c->k + row];
			if (row > 0) memcpy (p, CW[c->k + row - 1], (size_t) c->len);
			for (i = 0; i < c->k; i++)
				if (bm_get (Href, row, i)) for (j = 0; j < c->len; j++) p[j] ^= CW[i][j];
		}
		if (c->n > 64 && c->n <= 2000) {	/* reference self-check: word-parallel and indexed peeling agree (they are the C04 oracle) */
			int W = (c->n + 63) / 64 + 1, t, col;
			uint64_t kn[W];
			for (t = 0; t < 12; t++) {
				memset (kn, 0, sizeof kn);
				for (col = 0; col < c->n; col++) {
					unsigned h = ((unsigned) col * 2654435761u + (unsigned) t * 40503u) >> 9;
					int in = t == 0 ? 0 : t == 1 ? col >= c->k : t == 2 ? col != c->k / 2 && col < c->k : t < 8 ? (h & 3) != 0 : (h & 1);
					if (in) kn[col >> 6] |= (uint64_t) 1 << (col & 63);
				}
				if (gf2_peel_selfcheck (Href, kn)) { vf_incomplete ("MACHINERY: the two reference peeling implementations disagree (k=%d n=%d N1=%d seed=%d pattern %d)", c->k, c->n, c->N1, c->seed, t); fflush (NULL); _exit (3); }
			}
		}
	} else {
		int mm = c->codec == 1 ? 8 : c->m;
		unsigned char *Gm = malloc ((size_t) c->n * c->k);
		rsr_generator (mm, c->k, c->n, Gm);
		for (i = c->k; i < c->n; i++) rsr_encode_symbol (mm, c->k, Gm + (size_t) i * c->k, CW, CW[i], (size_t) c->len);
		free (Gm);
	}
}
static void free_codeword (const cfg_t *c)
{
	int i;
	for (i = 0; i < c->n; i++) free (CW[i]);
	free (CW); CW = NULL;
	if (Href) { bm_free (Href); Href = NULL; }
}

/* ------------------------------------------------------------------ world */
typedef struct {
	of_session_t	*ses;
	unsigned char	**buf, **dup, **pool;	/* symbol pointers handed to the library (block + align) */
	unsigned char	*poison; void *blk_poison;	/* what the source table is pre-filled with: the library must overwrite every entry */
	void		**blk_buf, **blk_dup, **blk_pool;
	void		**sas_tab, **sas_copy, **src_tab, **prev_tab;
	unsigned char	*submitted;		/* model: ESI submitted so far */
	unsigned char	*avail;			/* last observation: source i available */
	void		**first_ptr;		/* pointer supplied when source i was submitted while unknown */
	int		*cb_calls;
	int		cb_bad_esi, cb_bad_size, cb_for_received, cb_total;
	int		path;			/* 0 none, 1 DWS, 2 SAS */
	int		finished, was_complete, null_last;
	int		last_st, last_complete, last_gst;
	int		nsub;			/* number of distinct ESIs submitted */
	uint64_t	mark;
	long		badfree0;
	int		ok;			/* session configured */
	int		quiet;			/* history run without intermediate queries (only the last operation is observed) */
} world_t;

static int g_mute, g_quiet_run;	/* quiet histories: the application does not look at the session between operations */
static long g_oc[8][4][5][2];	/* [codec][call kind][status 0..3 / 4=other][complete] transitions observed, flushed per item */
static void flush_outcomes (void)
{
	int a, b, c, d;
	static const char *kn[] = {"query", "DWS", "SAS", "FINISH"}, *sn[] = {"OK", "FAILURE", "ERROR", "FATAL", "other"};
	for (a = 0; a < 8; a++) for (b = 0; b < 4; b++) for (c = 0; c < 5; c++) for (d = 0; d < 2; d++)
		if (g_oc[a][b][c][d]) {
			char nm[64];
			snprintf (nm, sizeof nm, "codec%d:%s=%s:%s", a, kn[b], sn[c], d ? "complete" : "incomplete");
			vf_outcome (nm, g_oc[a][b][c][d]);
			g_oc[a][b][c][d] = 0;
		}
}
static char g_case[VF_SLOT_LEN];
static int  g_viol_in_run;

static void viol (const char *prop, const char *sig)
{
	g_viol_in_run++;
	if (G.codec == 5 && strcmp (prop, "MACHINERY")) prop = "C16";	/* every clause about the 2D codec belongs to C16 */
	if (strstr (g_case, " ops=P") || strstr (g_case, " ops=X")) { char s2[240]; snprintf (s2, sizeof s2, "%s|after-an-earlier-session", sig); vf_viol (prop, s2, "%s", g_case); return; }	/* own signature: these reproduce alone, cases that depend on what the worker ran before do not */
	vf_viol (prop, sig, "%s", g_case);
}

static void *src_cb (void *ctx, UINT32 size, UINT32 esi)
{
	world_t *w = ctx;
	w->cb_total++;
	if (esi >= (UINT32) G.k) { w->cb_bad_esi++; return NULL; }
	if (size != (UINT32) G.len) w->cb_bad_size++;
	if (w->submitted[esi]) w->cb_for_received++;
	w->cb_calls[esi]++;
	if (G.cbmode == 2) return NULL;
	if (G.cbmode == 3 && esi < 64 && ((G.Z >> esi) & 1)) return NULL;
	return w->pool[esi];
}

static void *rep_cb (void *ctx, UINT32 size, UINT32 esi)
{
	world_t *w = ctx;
	(void) size; (void) esi;
	w->cb_total++;
	return NULL;
}

static unsigned char *mkbuf (void **blk, const unsigned char *content)
{
	unsigned char *b = malloc ((size_t) G.align + (size_t) G.len);
	*blk = b;
	if (content) memcpy (b + G.align, content, (size_t) G.len);
	else memset (b + G.align, 0xA5, (size_t) G.len);
	return b + G.align;
}

static world_t *world_new (void)
{
	world_t *w = calloc (1, sizeof *w);
	int i, n = G.n, k = G.k;
	w->buf = calloc ((size_t) n, sizeof (void *)); w->dup = calloc ((size_t) n, sizeof (void *)); w->pool = calloc ((size_t) k, sizeof (void *));
	w->blk_buf = calloc ((size_t) n, sizeof (void *)); w->blk_dup = calloc ((size_t) n, sizeof (void *)); w->blk_pool = calloc ((size_t) k, sizeof (void *));
	for (i = 0; i < n; i++) { w->buf[i] = mkbuf (&w->blk_buf[i], CW[i]); w->dup[i] = mkbuf (&w->blk_dup[i], CW[i]); }
	for (i = 0; i < k; i++) w->pool[i] = mkbuf (&w->blk_pool[i], NULL);
	w->poison = mkbuf (&w->blk_poison, NULL); memset (w->poison, 0xEE, (size_t) G.len);
	/* pointer tables of exactly n resp. k entries */
	w->sas_tab = malloc (sizeof (void *) * (size_t) n); w->sas_copy = malloc (sizeof (void *) * (size_t) n);
	w->src_tab = malloc (sizeof (void *) * (size_t) k); w->prev_tab = calloc ((size_t) k, sizeof (void *));
	w->submitted = calloc ((size_t) n, 1); w->avail = calloc ((size_t) k, 1);
	w->first_ptr = calloc ((size_t) k, sizeof (void *)); w->cb_calls = calloc ((size_t) k, sizeof (int));
#ifdef VF_TRK
	w->mark = vf_trk_mark ();
	w->badfree0 = vf_trk_badfree_count ();
#endif
	return w;
}

static int is_app_ptr (world_t *w, const void *p)
{
	int i;
	for (i = 0; i < G.n; i++) if (p == w->buf[i] || p == w->dup[i]) return 1;
	for (i = 0; i < G.k; i++) if (p == w->pool[i]) return 1;
	if (p == w->poison) return 1;
	return 0;
}

static int world_open (world_t *w)
{
	of_status_t st;
	of_codec_id_t id = G.codec == 1 ? OF_CODEC_REED_SOLOMON_GF_2_8_STABLE : G.codec == 2 ? OF_CODEC_REED_SOLOMON_GF_2_M_STABLE : G.codec == 5 ? OF_CODEC_2D_PARITY_MATRIX_STABLE : OF_CODEC_LDPC_STAIRCASE_STABLE;
	st = VF_LIB (of_create_codec_instance (&w->ses, id, OF_DECODER, 0));
	if (st != OF_STATUS_OK || !w->ses) { viol (PROP, "call=create|kind=status-not-ok"); return 0; }
	if (G.codec == 1) {
		of_rs_parameters_t p; memset (&p, 0, sizeof p);
		p.nb_source_symbols = (UINT32) G.k; p.nb_repair_symbols = (UINT32) G.r; p.encoding_symbol_length = (UINT32) G.len;
		st = VF_LIB (of_set_fec_parameters (w->ses, (of_parameters_t *) &p));
	} else if (G.codec == 2) {
		of_rs_2_m_parameters_t p; memset (&p, 0, sizeof p);
		p.nb_source_symbols = (UINT32) G.k; p.nb_repair_symbols = (UINT32) G.r; p.encoding_symbol_length = (UINT32) G.len; p.m = (UINT16) G.m;
		st = VF_LIB (of_set_fec_parameters (w->ses, (of_parameters_t *) &p));
	} else if (G.codec == 5) {
		of_2d_parity_parameters_t p; memset (&p, 0, sizeof p);
		p.nb_source_symbols = (UINT32) G.k; p.nb_repair_symbols = (UINT32) G.r; p.encoding_symbol_length = (UINT32) G.len;
		st = VF_LIB (of_set_fec_parameters (w->ses, (of_parameters_t *) &p));
	} else {
		of_ldpc_parameters_t p; memset (&p, 0, sizeof p);
		p.nb_source_symbols = (UINT32) G.k; p.nb_repair_symbols = (UINT32) G.r; p.encoding_symbol_length = (UINT32) G.len;
		p.prng_seed = G.seed; p.N1 = (UINT8) G.N1;
		st = VF_LIB (of_set_fec_parameters (w->ses, (of_parameters_t *) &p));
	}
	if (st != OF_STATUS_OK) { viol ("C09", "call=set_fec_parameters|kind=valid-configuration-rejected"); return 0; }
	w->ok = 1;
	if (G.codec == 3) {
		bool isnull = false;
		if (VF_LIB (of_get_control_parameter (w->ses, OF_CRTL_LDPC_STAIRCASE_IS_LAST_SYMBOL_NULL, &isnull, sizeof isnull)) == OF_STATUS_OK) w->null_last = isnull ? 1 : 0;
		if (w->null_last && Href) {
			/* a decoder that takes the last repair symbol for null treats a symbol it never received as known: sound only if that
			 * symbol is zero for every block, i.e. every source column of the reference matrix has even weight (summing all
			 * equations cancels the staircase). The model keeps following the session's claim; a false claim is reported here. */
			static int ck = -1, cr, cn1, cseed, truly;
			if (ck != G.k || cr != G.r || cn1 != G.N1 || cseed != G.seed) {
				int row, col; truly = 1;
				for (col = 0; col < G.k && truly; col++) { int wgt = 0; for (row = 0; row < G.r; row++) wgt += bm_get (Href, row, col); if (wgt & 1) truly = 0; }
				ck = G.k; cr = G.r; cn1 = G.N1; cseed = G.seed;
			}
			if (!truly) viol (PROP, "codec=ldpc|call=set_fec_parameters|kind=last-repair-symbol-assumed-null-though-the-code-does-not-make-it-null");
		}
	}
	if (G.cbmode == 4) {
		/* only the decoded-REPAIR-symbol callback, which "is not expected to return any data buffer" (returns NULL) */
		st = VF_LIB (of_set_callback_functions (w->ses, NULL, rep_cb, w));
		if (st != OF_STATUS_OK) viol ("C10", "call=set_callback_functions|kind=status-not-ok");
	} else if (G.cbmode) {
		st = VF_LIB (of_set_callback_functions (w->ses, src_cb, NULL, w));
		if (st != OF_STATUS_OK) viol ("C11", "call=set_callback_functions|kind=status-not-ok");
	}
	return 1;
}

/* release + application epilogue + leak oracle (C08). returns nothing; reports violations. */
static void world_close (world_t *w)
{
	int i, j, n = G.n, k = G.k;
	if (w->ses) {
		of_status_t st = VF_LIB (of_release_codec_instance (w->ses));
		vf_stat_add (st_releases, 1);
		if (st != OF_STATUS_OK) viol ("C08", "call=release|kind=status-not-ok");
		/* application epilogue: free every source-table pointer the application did not supply */
		if (w->ok && w->last_gst == OF_STATUS_OK)
			for (i = 0; i < k; i++) {
				void *p = w->src_tab[i];
				int dupl = 0;
				if (!p || is_app_ptr (w, p)) continue;
				for (j = 0; j < i; j++) if (w->src_tab[j] == p) dupl = 1;
				if (dupl) { viol ("C08", "call=get_source_symbols_tab|kind=two-source-slots-share-one-library-buffer"); continue; }
#ifdef VF_TRK
				if (!vf_trk_is_live (p)) { viol ("C08", "call=get_source_symbols_tab|kind=source-slot-points-to-freed-or-foreign-memory"); continue; }
#endif
				free (p);
			}
	}
#ifdef VF_TRK
	{
		void *first = NULL;
		long live = vf_trk_live_since (w->mark, &first);
		if (live != 0) {
			char sig[160];
			snprintf (sig, sizeof sig, "codec=%d|kind=leak|state=%s%s%s|blocksz=%s", G.codec, w->ok ? "configured" : "unconfigured",
				  w->finished ? (w->last_st == OF_STATUS_OK ? "+finish-ok" : "+finish-failed") : (w->nsub ? "+mid-decoding" : ""),
				  w->was_complete ? "+complete" : "", first && vf_trk_size (first) == (size_t) G.len ? "symbol" : "other");
			viol ("C08", sig);
			/* do not let one leak taint the following executions: forget the blocks */
		}
		if (vf_trk_badfree_count () != w->badfree0) {
			char sig[96];
			snprintf (sig, sizeof sig, "codec=%d|kind=free-of-non-live-block", G.codec);
			viol ("C08", sig);
		}
		if (vf_trk_old_freed () != 0) {
			char sig[96];
			snprintf (sig, sizeof sig, "codec=%d|kind=library-freed-application-memory", G.codec);
			viol ("C07", sig);
			viol ("C08", sig);
		}
	}
#endif
	/* the harness' own memory (blocks the library freed by mistake are skipped by the tracker) */
	for (i = 0; i < n; i++) { free (w->blk_buf[i]); free (w->blk_dup[i]); }
	for (i = 0; i < k; i++) free (w->blk_pool[i]);
	free (w->blk_poison);
	free (w->buf); free (w->dup); free (w->pool); free (w->blk_buf); free (w->blk_dup); free (w->blk_pool);
	free (w->sas_tab); free (w->sas_copy); free (w->src_tab); free (w->prev_tab);
	free (w->submitted); free (w->avail); free (w->first_ptr); free (w->cb_calls);
	free (w);
#ifdef VF_TRK
	vf_trk_mark ();
#endif
}

/* ------------------------------------------------------------------ reference computations */
static void known_set (world_t *w, uint64_t *known)
{
	int e, W = (G.n + 63) / 64;
	memset (known, 0, sizeof (uint64_t) * (size_t) W);
	for (e = 0; e < G.n; e++) if (w->submitted[e]) known[e >> 6] |= (uint64_t) 1 << (e & 63);
	if (w->null_last) known[(G.n - 1) >> 6] |= (uint64_t) 1 << ((G.n - 1) & 63);
}

/* ------------------------------------------------------------------ observation + oracles */
/* kind: 0 initial/light, 1 after DWS, 2 after SAS, 3 after FINISH. full: compare all contents. */
static void observe (world_t *w, int kind, int st, int full)
{
	int i, k = G.k, navail = 0, complete, gst;
	char sig[200];
	const char *cn = G.codec == 1 ? "rs28" : G.codec == 2 ? (G.m == 4 ? "rs2m4" : "rs2m8") : G.codec == 5 ? "2d" : "ldpc";
	const char *call = kind == 1 ? "DWS" : kind == 2 ? "SAS" : kind == 3 ? "FINISH" : "query";

	if (g_mute) { w->last_st = st; return; }
	complete = VF_LIB (of_is_decoding_complete (w->ses)) ? 1 : 0;
	for (i = 0; i < k; i++) w->src_tab[i] = w->poison;	/* "table, that will be filled by the library": stale content must not survive */
	gst = (int) VF_LIB (of_get_source_symbols_tab (w->ses, w->src_tab));
	w->last_gst = gst;
	if (gst == OF_STATUS_OK)
		for (i = 0; i < k; i++) if (w->src_tab[i] == w->poison) { snprintf (sig, sizeof sig, "codec=%s|call=get_source_symbols_tab|kind=table-entry-not-filled", cn); viol (G.cbmode ? "C11" : "C10", sig); viol ("C01", sig); w->src_tab[i] = NULL; }
	if (gst != OF_STATUS_OK) for (i = 0; i < k; i++) w->src_tab[i] = NULL;

	/* C07: application buffers and tables are read-only for the library (not part of C16: skipped for the 2D codec) */
	if (G.codec != 5 && (G.n <= 64 || full)) {
		for (i = 0; i < G.n; i++) {
			if (memcmp (w->buf[i], CW[i], (size_t) G.len)) { snprintf (sig, sizeof sig, "codec=%s|call=%s|kind=received-symbol-buffer-modified", cn, call); viol ("C07", sig); memcpy (w->buf[i], CW[i], (size_t) G.len); }
			if (memcmp (w->dup[i], CW[i], (size_t) G.len)) { snprintf (sig, sizeof sig, "codec=%s|call=%s|kind=duplicate-symbol-buffer-modified", cn, call); viol ("C07", sig); memcpy (w->dup[i], CW[i], (size_t) G.len); }
		}
	}
	if (G.codec != 5 && kind == 2 && memcmp (w->sas_tab, w->sas_copy, sizeof (void *) * (size_t) G.n)) { snprintf (sig, sizeof sig, "codec=%s|call=SAS|kind=availability-table-modified", cn); viol ("C07", sig); }

	/* C01 / C10 */
	if (gst == OF_STATUS_OK) {
		for (i = 0; i < k; i++) {
			void *p = w->src_tab[i];
			if (!p) continue;
			navail++;
			if (full || p != w->prev_tab[i] || G.n <= 64) {
				if (memcmp (p, CW[i], (size_t) G.len)) {
					snprintf (sig, sizeof sig, "codec=%s|call=%s|kind=wrong-source-symbol|cb=%d", cn, call, G.cbmode);
					viol ((G.cbmode == 2 || G.cbmode == 3) ? "C11" : "C01", sig);
				}
			}
		}
	}
	if (G.codec != 5 && complete && !(gst == OF_STATUS_OK && navail == k)) {
		snprintf (sig, sizeof sig, "codec=%s|call=%s|kind=complete-but-not-all-sources-available|cb=%d", cn, call, G.cbmode);
		viol ((G.cbmode == 2 || G.cbmode == 3) ? "C11" : "C01", sig);
		viol ((G.cbmode == 2 || G.cbmode == 3) ? "C11" : "C10", sig);
	}
	if (G.codec != 5 && !complete && gst == OF_STATUS_OK && navail == k) {
		snprintf (sig, sizeof sig, "codec=%s|call=%s|kind=all-sources-available-but-not-complete|cb=%d", cn, call, G.cbmode);
		viol ((G.cbmode == 2 || G.cbmode == 3) ? "C11" : "C10", sig);
	}
	if (G.codec != 5 && w->was_complete && !complete) { snprintf (sig, sizeof sig, "codec=%s|call=%s|kind=completion-reverted", cn, call); viol ("C10", sig); }
	if (G.codec == 5) {
		/* C16 states nothing about status codes (C10 excludes this codec): not checked */
	} else if (kind == 1 || kind == 2) {
		if (st != OF_STATUS_OK) { snprintf (sig, sizeof sig, "codec=%s|call=%s|kind=status-not-ok(%d)|cb=%d", cn, call, st, G.cbmode); viol ((G.cbmode == 2 || G.cbmode == 3) ? "C11" : "C10", sig); }
	} else if (kind == 3) {
		if (st == OF_STATUS_OK && !complete) { snprintf (sig, sizeof sig, "codec=%s|call=FINISH|kind=OK-but-not-complete|cb=%d", cn, G.cbmode); viol ((G.cbmode == 2 || G.cbmode == 3) ? "C11" : "C10", sig); }
		else if (st == OF_STATUS_FAILURE && complete) { snprintf (sig, sizeof sig, "codec=%s|call=FINISH|kind=FAILURE-but-complete|precomplete=%d|cb=%d", cn, w->was_complete, G.cbmode); viol ((G.cbmode == 2 || G.cbmode == 3) ? "C11" : "C10", sig); }
		else if (st != OF_STATUS_OK && st != OF_STATUS_FAILURE) { snprintf (sig, sizeof sig, "codec=%s|call=FINISH|kind=status-%d|complete=%d|cb=%d", cn, st, complete, G.cbmode); viol ((G.cbmode == 2 || G.cbmode == 3) ? "C11" : "C10", sig); }
	}
	/* C10: the very pointer supplied for a source symbol submitted while unknown */
	if (gst == OF_STATUS_OK && G.codec != 5 && !w->quiet)	/* (a quiet run does not know which symbols were still unknown when submitted) */
		for (i = 0; i < k; i++)
			if (w->first_ptr[i] && w->src_tab[i] != w->first_ptr[i]) {
				snprintf (sig, sizeof sig, "codec=%s|call=%s|kind=submitted-source-pointer-not-reported|%s", cn, call, w->src_tab[i] ? "other-pointer" : "null");
				viol ("C10", sig);
				break;
			}

	/* C02: MDS (RS only) */
	if (G.codec != 3 && G.codec != 5 && G.cbmode != 2 && G.cbmode != 3) {
		if (w->nsub < k && complete) { snprintf (sig, sizeof sig, "codec=%s|call=%s|kind=complete-with-fewer-than-k", cn, call); viol ("C02", sig); }
		if (w->nsub >= k && (kind == 1 || kind == 3) && !(complete && gst == OF_STATUS_OK && navail == k)) {
			snprintf (sig, sizeof sig, "codec=%s|call=%s|kind=not-complete-with-k-symbols", cn, call); viol ("C02", sig);
		}
		if (kind == 3 && w->nsub < k && st != OF_STATUS_FAILURE) { snprintf (sig, sizeof sig, "codec=%s|call=FINISH|kind=status-%d-with-fewer-than-k", cn, st); viol ("C02", sig); }
		if (complete && gst == OF_STATUS_OK)
			for (i = 0; i < k; i++)
				if (!w->src_tab[i] || memcmp (w->src_tab[i], CW[i], (size_t) G.len)) { snprintf (sig, sizeof sig, "codec=%s|call=%s|kind=wrong-or-missing-symbol-after-k", cn, call); viol ("C02", sig); break; }
	}

	/* C03 / C04: LDPC against the RFC 5170 matrix */
	if ((G.codec == 3 || G.codec == 5) && G.cbmode != 2 && G.cbmode != 3 && (G.n <= 64 || full)) {
		uint64_t known[(G.n + 63) / 64 + 1];
		known_set (w, known);
		if (kind == 3) {
			int nu, rk = gf2_rank_unknown (Href, known, &nu);
			int recoverable = rk == nu;
			int recovered = G.codec == 5 ? (gst == OF_STATUS_OK && navail == k) : complete;	/* C16 speaks of recovery, not of the completion flag */
			if (recoverable && recovered) {	/* "recovers" means the right values */
				int q;
				for (q = 0; q < k; q++) if (w->src_tab[q] && memcmp (w->src_tab[q], CW[q], (size_t) G.len)) { snprintf (sig, sizeof sig, "codec=%s|call=FINISH|kind=recovered-with-wrong-values|api=%s", cn, w->path == 2 ? "SAS" : "DWS"); viol ("C03", sig); break; }
			}
			if (recoverable != recovered) {
				snprintf (sig, sizeof sig, "codec=%s|call=FINISH|kind=%s|api=%s", cn, recoverable ? "recoverable-but-not-recovered" : "complete-though-not-determined", w->path == 2 ? "SAS" : "DWS");
				viol ("C03", sig);
			}
		} else if (G.codec == 3 && w->path != 2 && !w->finished) {
			int bad = 0, all = 1;
			gf2_peel (Href, known);
			for (i = 0; i < k; i++) {
				int in = (int) ((known[i >> 6] >> (i & 63)) & 1);
				int av = gst == OF_STATUS_OK && w->src_tab[i] != NULL;
				if (!in) all = 0;
				if (in != av) bad = in ? 1 : 2;
			}
			if (bad) { snprintf (sig, sizeof sig, "codec=ldpc|call=%s|kind=%s", call, bad == 1 ? "in-peeling-closure-but-not-available" : "available-but-not-in-peeling-closure"); viol ("C04", sig); }
			if (all != complete) { snprintf (sig, sizeof sig, "codec=ldpc|call=%s|kind=completion-differs-from-closure(%d,%d)", call, all, complete); viol ("C04", sig); }
		}
	}

	/* C11: callback contract */
	if (G.cbmode && G.cbmode != 4) {
		if (w->cb_bad_esi) { viol ("C11", "kind=callback-esi-out-of-range"); w->cb_bad_esi = 0; }
		if (w->cb_bad_size) { viol ("C11", "kind=callback-size-differs-from-symbol-length"); w->cb_bad_size = 0; }
		if (w->cb_for_received) { snprintf (sig, sizeof sig, "codec=%s|call=%s|kind=callback-for-received-symbol", cn, call); viol ("C11", sig); w->cb_for_received = 0; }
		for (i = 0; i < k; i++) {
			void *p = gst == OF_STATUS_OK ? w->src_tab[i] : NULL;
			int decoded = p && p != w->buf[i] && p != w->dup[i];
			int nullans = G.cbmode == 2 || (G.cbmode == 3 && i < 64 && ((G.Z >> i) & 1));
			if (w->cb_calls[i] > 1) { snprintf (sig, sizeof sig, "codec=%s|call=%s|kind=callback-called-%d-times", cn, call, w->cb_calls[i]); viol ("C11", sig); break; }
			if (gst != OF_STATUS_OK) continue;
			if (decoded && w->cb_calls[i] == 0) { snprintf (sig, sizeof sig, "codec=%s|call=%s|kind=decoded-without-callback|path=%s", cn, call, kind == 3 ? "finish" : "streaming"); viol ("C11", sig); break; }
			if (!decoded && w->cb_calls[i] == 1 && p) { snprintf (sig, sizeof sig, "codec=%s|call=%s|kind=callback-buffer-not-reported", cn, call); viol ("C11", sig); break; }
			if (decoded && w->cb_calls[i] == 1) {
				if (!nullans && p != w->pool[i]) { snprintf (sig, sizeof sig, "codec=%s|call=%s|kind=decoded-symbol-not-in-callback-buffer", cn, call); viol ("C11", sig); break; }
				if (nullans && is_app_ptr (w, p)) { snprintf (sig, sizeof sig, "codec=%s|call=%s|kind=null-answer-but-application-buffer-used", cn, call); viol ("C11", sig); break; }
#ifdef VF_TRK
				if (nullans && (!vf_trk_is_live (p) || vf_trk_size (p) < (size_t) G.len)) { snprintf (sig, sizeof sig, "codec=%s|call=%s|kind=null-answer-buffer-not-a-library-block", cn, call); viol ("C11", sig); break; }
#endif
			}
		}
		/* once complete, every source symbol that was never submitted must have been announced */
		if (complete && gst == OF_STATUS_OK)
			for (i = 0; i < k; i++)
				if (!w->submitted[i] && w->cb_calls[i] != 1 && w->src_tab[i] != w->buf[i] && w->src_tab[i] != w->dup[i]) {
					snprintf (sig, sizeof sig, "codec=%s|call=%s|kind=complete-but-decoded-symbol-never-announced", cn, call); viol ("C11", sig); break;
				}
	}
	g_oc[G.codec & 7][kind & 3][st >= 0 && st <= 3 ? st : 4][complete]++;
	/* model update */
	for (i = 0; i < k; i++) {
		w->avail[i] = (unsigned char) (gst == OF_STATUS_OK && w->src_tab[i] != NULL);
		w->prev_tab[i] = gst == OF_STATUS_OK ? w->src_tab[i] : NULL;
	}
	w->last_st = st; w->last_complete = complete;
	if (complete) w->was_complete = 1;
}

/* ------------------------------------------------------------------ operations */
static void op_dws (world_t *w, int e, int full)
{
	void *ptr = w->submitted[e] ? w->dup[e] : w->buf[e];
	int st;
	if (e < G.k && !w->submitted[e] && !w->avail[e] && !(G.codec != 3 && w->was_complete)) w->first_ptr[e] = ptr;
	if (!w->submitted[e]) { w->submitted[e] = 1; w->nsub++; }
	w->path = 1;
	st = (int) VF_LIB (of_decode_with_new_symbol (w->ses, ptr, (UINT32) e));
	observe (w, 1, st, full);
}
static void op_sas (world_t *w, const unsigned char *member)
{
	int e, st;
	for (e = 0; e < G.n; e++) {
		w->sas_tab[e] = member[e] ? w->buf[e] : NULL;
		if (member[e]) { if (e < G.k) w->first_ptr[e] = w->buf[e]; w->submitted[e] = 1; w->nsub++; }
	}
	memcpy (w->sas_copy, w->sas_tab, sizeof (void *) * (size_t) G.n);
	w->path = 2;
	st = (int) VF_LIB (of_set_available_symbols (w->ses, w->sas_tab));
	observe (w, 2, st, 1);
}
static void op_fin (world_t *w)
{
	int st;
	g_rand_calls = 0; g_rand_mod = G.r; g_rand_flip = (G.k + G.r + G.seed + G.N1) & 1;
	st = (int) VF_LIB (of_finish_decoding (w->ses));
	w->finished = 1;
	vf_stat_add (st_finish, 1);
	observe (w, 3, st, 1);
}

/* ------------------------------------------------------------------ digest of the concrete state */
static uint64_t ptr_class (world_t *w, const void *p, void **seen, int *nseen)
{
	int i;
	if (!p) return 0;
	for (i = 0; i < G.n; i++) { if (p == w->buf[i]) return 0x100000 + (uint64_t) i; if (p == w->dup[i]) return 0x200000 + (uint64_t) i; }
	for (i = 0; i < G.k; i++) if (p == w->pool[i]) return 0x300000 + (uint64_t) i;
	for (i = 0; i < *nseen; i++) if (seen[i] == p) return 0x400000 + (uint64_t) i;
	if (*nseen < 256) seen[(*nseen)++] = (void *) p;
	return 0x400000 + (uint64_t) (*nseen - 1);
}

static void digest_sparse (vf_h128 *h, of_mod2sparse *m)
{
	int i;
	of_mod2entry *e;
	if (!m) { vf_h_u64 (h, 0xdead); return; }
	vf_h_u64 (h, (uint64_t) m->n_rows * 65537 + (uint64_t) m->n_cols);
	for (i = 0; i < m->n_rows; i++) {
		for (e = of_mod2sparse_first_in_row (m, i); !of_mod2sparse_at_end_row (e); e = of_mod2sparse_next_in_row (e)) vf_h_u64 (h, (uint64_t) e->col + 1);
		vf_h_u64 (h, 0);
	}
	for (i = 0; i < m->n_cols; i++) {
		for (e = of_mod2sparse_first_in_col (m, i); !of_mod2sparse_at_end_col (e); e = of_mod2sparse_next_in_col (e)) vf_h_u64 (h, (uint64_t) e->row + 1);
		vf_h_u64 (h, 0);
	}
}

/* every word of the control block itself, pointers masked (any value >= 2^40 is taken for an address): a field the
 * named-field digest below does not know about - one added by a change to the library - still separates states */
static void digest_raw (vf_h128 *h, const void *cb, size_t sz, size_t skip_off, size_t skip_len)
{
	/* skip_off/skip_len: a field whose value is derived from an address (the Reed-Solomon 'magic' is XORed with a
	 * pointer) and therefore differs between executions without being state */
	unsigned char tmp[1024];
	size_t i;
	if (sz > sizeof tmp) sz = sizeof tmp;
	memcpy (tmp, cb, sz);
	if (skip_len && skip_off + skip_len <= sz) memset (tmp + skip_off, 0, skip_len);
	for (i = 0; i + 8 <= sz; i += 8) { uint64_t v; memcpy (&v, tmp + i, 8); vf_h_u64 (h, v >= ((uint64_t) 1 << 40) ? 0x7074722121ULL : v); }
	for (; i < sz; i++) vf_h_u64 (h, tmp[i]);
}

static vf_h128 digest (world_t *w)
{
	vf_h128 h;
	void *seen[256];
	int nseen = 0, i;
	vf_h_init (&h);
	/* model */
	vf_h_bytes (&h, w->submitted, (size_t) G.n);
	vf_h_u64 (&h, (uint64_t) w->path * 16 + (uint64_t) w->finished * 4 + (uint64_t) w->was_complete * 2 + (uint64_t) w->null_last);
	for (i = 0; i < G.k; i++) { vf_h_u64 (&h, (uint64_t) w->cb_calls[i]); vf_h_u64 (&h, ptr_class (w, w->first_ptr[i], seen, &nseen)); }
	vf_h_u64 (&h, (uint64_t) w->last_st * 64 + (uint64_t) w->last_complete * 8 + (uint64_t) w->last_gst);
	/* library */
	if (G.codec == 3) {
		of_ldpc_staircase_cb_t *cb = (of_ldpc_staircase_cb_t *) w->ses;
		digest_raw (&h, cb, sizeof *cb, 0, 0);
		digest_sparse (&h, cb->pchk_matrix);
		vf_h_u64 (&h, cb->nb_source_symbol_ready); vf_h_u64 (&h, cb->nb_repair_symbol_ready); vf_h_u64 (&h, cb->first_non_decoded);
		vf_h_u64 (&h, (uint64_t) (cb->index_rows != NULL) * 2 + (uint64_t) (cb->index_cols != NULL)); vf_h_u64 (&h, (uint64_t) (cb->pchk_matrix_simplified != NULL));
		if (cb->tab_nb_unknown_symbols) vf_h_bytes (&h, cb->tab_nb_unknown_symbols, sizeof (UINT16) * (size_t) G.r);
		if (cb->tab_nb_enc_symbols_per_equ) vf_h_bytes (&h, cb->tab_nb_enc_symbols_per_equ, sizeof (UINT16) * (size_t) G.r);
		if (cb->tab_nb_equ_for_repair) vf_h_bytes (&h, cb->tab_nb_equ_for_repair, sizeof (UINT16) * (size_t) G.r);
		if (cb->tab_const_term_of_equ)
			for (i = 0; i < G.r; i++) {
				void *p = cb->tab_const_term_of_equ[i];
				vf_h_u64 (&h, ptr_class (w, p, seen, &nseen));
				if (p) vf_h_bytes (&h, p, (size_t) G.len);
			}
		if (cb->encoding_symbols_tab)
			for (i = 0; i < G.n; i++) {
				void *p = cb->encoding_symbols_tab[i];
				vf_h_u64 (&h, ptr_class (w, p, seen, &nseen));
				if (p) vf_h_bytes (&h, p, (size_t) G.len);
			}
	} else if (G.codec == 5) {
		of_2d_parity_cb_t *cb = (of_2d_parity_cb_t *) w->ses;
		digest_raw (&h, cb, sizeof *cb, 0, 0);
		digest_sparse (&h, cb->pchk_matrix);
		vf_h_u64 (&h, cb->nb_source_symbol_ready); vf_h_u64 (&h, cb->nb_repair_symbol_ready); vf_h_u64 (&h, cb->first_non_decoded);
		vf_h_u64 (&h, (uint64_t) (cb->index_rows != NULL) * 2 + (uint64_t) (cb->index_cols != NULL)); vf_h_u64 (&h, (uint64_t) (cb->pchk_matrix_simplified != NULL));
		if (cb->tab_nb_unknown_symbols) vf_h_bytes (&h, cb->tab_nb_unknown_symbols, sizeof (UINT16) * (size_t) G.r);
		if (cb->tab_nb_enc_symbols_per_equ) vf_h_bytes (&h, cb->tab_nb_enc_symbols_per_equ, sizeof (UINT16) * (size_t) G.r);
		if (cb->tab_nb_equ_for_repair) vf_h_bytes (&h, cb->tab_nb_equ_for_repair, sizeof (UINT16) * (size_t) G.r);
		if (cb->tab_const_term_of_equ)
			for (i = 0; i < G.r; i++) { void *p = cb->tab_const_term_of_equ[i]; vf_h_u64 (&h, ptr_class (w, p, seen, &nseen)); if (p) vf_h_bytes (&h, p, (size_t) G.len); }
		if (cb->encoding_symbols_tab)
			for (i = 0; i < G.n; i++) { void *p = cb->encoding_symbols_tab[i]; vf_h_u64 (&h, ptr_class (w, p, seen, &nseen)); if (p) vf_h_bytes (&h, p, (size_t) G.len); }
	} else if (G.codec == 1) {
		of_rs_cb_t *cb = (of_rs_cb_t *) w->ses;
		digest_raw (&h, cb, sizeof *cb, 0, 0);
		vf_h_u64 (&h, cb->nb_available_symbols); vf_h_u64 (&h, cb->nb_available_source_symbols);
		vf_h_u64 (&h, (uint64_t) cb->decoding_finished * 2 + (uint64_t) (cb->rs_cb != NULL));
		if (cb->available_symbols_tab)
			for (i = 0; i < G.n; i++) {
				void *p = cb->available_symbols_tab[i];
				vf_h_u64 (&h, ptr_class (w, p, seen, &nseen));
				if (p) vf_h_bytes (&h, p, (size_t) G.len);
			}
	} else {
		of_rs_2_m_cb_t *cb = (of_rs_2_m_cb_t *) w->ses;
		digest_raw (&h, cb, sizeof *cb, offsetof (of_rs_2_m_cb_t, magic), sizeof cb->magic);
		vf_h_u64 (&h, cb->nb_available_symbols); vf_h_u64 (&h, cb->nb_available_source_symbols);
		vf_h_u64 (&h, (uint64_t) cb->decoding_finished * 4 + (uint64_t) (cb->enc_matrix != NULL) * 2 + (uint64_t) (cb->dec_matrix != NULL));
		if (cb->available_symbols_tab)
			for (i = 0; i < G.n; i++) {
				void *p = cb->available_symbols_tab[i];
				vf_h_u64 (&h, ptr_class (w, p, seen, &nseen));
				if (p) vf_h_bytes (&h, p, (size_t) G.len);
			}
	}
	return h;
}

/* ------------------------------------------------------------------ case strings */
static void cfg_str (char *o, size_t sz, const cfg_t *c)
{
	snprintf (o, sz, "cfg=%d:%d:%d:%d:%d:%d:%d:%d:%d:%llx", c->codec, c->m, c->k, c->r, c->N1, c->seed, c->len, c->align, c->cbmode, (unsigned long long) c->Z);
}
static int cfg_parse (const char *s, cfg_t *c)
{
	unsigned long long z = 0;
	memset (c, 0, sizeof *c);
	if (sscanf (s, "cfg=%d:%d:%d:%d:%d:%d:%d:%d:%d:%llx", &c->codec, &c->m, &c->k, &c->r, &c->N1, &c->seed, &c->len, &c->align, &c->cbmode, &z) != 10) return 0;
	c->Z = z; c->n = c->k + c->r;
	return 1;
}
static void rand_str (char *o, size_t sz)
{
	int i; size_t l = 0;
	l += (size_t) snprintf (o + l, sz - l, "rand=");
	if (!g_rand_nscript) l += (size_t) snprintf (o + l, sz - l, "-");
	for (i = 0; i < g_rand_nscript && l + 8 < sz; i++) l += (size_t) snprintf (o + l, sz - l, "%s%d", i ? "," : "", g_rand_script[i]);
}
static void hist_case (const hist_t *h)
{
	char c[96], r[200];
	size_t l;
	int i;
	cfg_str (c, sizeof c, &G); rand_str (r, sizeof r);
	l = (size_t) snprintf (g_case, sizeof g_case, "%s %s ops=%s", c, r, g_quiet_run ? "Q," : "");
	if (h->has_sas) l += (size_t) snprintf (g_case + l, sizeof g_case - l, "Sm%llx,", (unsigned long long) h->sas);
	for (i = 0; i < h->nops && l + 8 < sizeof g_case; i++)
		l += (size_t) (h->ops[i] == 0xFF ? snprintf (g_case + l, sizeof g_case - l, "F,") : snprintf (g_case + l, sizeof g_case - l, "D%d,", h->ops[i]));
	memcpy (vf_slot (), g_case, sizeof g_case);
}

/* run a (small-n) history on a fresh world. Returns the digest of the state reached; if pre != NULL
 * it receives the digest before the last operation. */
static vf_h128 run_hist (const hist_t *h, vf_h128 *pre, int *finished_out)
{
	world_t *w;
	vf_h128 d;
	int i, total = h->nops + (h->has_sas ? 1 : 0), step = 0;
	hist_case (h);
	vf_stat_add (st_exec, 1);
	vf_h_init (&d);
	w = world_new ();
	if (!world_open (w)) { world_close (w); return d; }
	w->quiet = g_quiet_run;
	g_mute = g_quiet_run && total > 0;
	observe (w, 0, 0, 1);
	if (pre && total == 0) *pre = digest (w);
	if (h->has_sas) {
		unsigned char mem[64];
		for (i = 0; i < G.n; i++) mem[i] = (unsigned char) ((h->sas >> i) & 1);
		step++;
		if (pre && step == total) *pre = digest (w);
		g_mute = g_quiet_run && step < total;
		op_sas (w, mem);
	}
	for (i = 0; i < h->nops; i++) {
		step++;
		if (pre && step == total) *pre = digest (w);
		g_mute = g_quiet_run && step < total;
		if (h->ops[i] == 0xFF) op_fin (w); else op_dws (w, h->ops[i], 1);
	}
	g_mute = 0;
	d = digest (w);
	if (finished_out) *finished_out = w->finished;
	vf_stat_add (st_cb_calls, w->cb_total);
	world_close (w);
	return d;
}

/* ------------------------------------------------------------------ rand-script enumeration at FINISH */
/* calls fn() for the default script and every script with <= dev deviations (all r^r scripts if r <= 4) */
static void for_rand_scripts (int r, int dev, void (*fn) (void *), void *arg)
{
	int i, j, a, b;
	g_rand_nscript = 0;
	fn (arg);
	if (G.codec != 3 || dev <= 0 || r <= 1) return;
	if (r <= 4) {
		long total = 1, x;
		for (i = 0; i < r; i++) total *= r;
		for (x = 0; x < total; x++) {
			long y = x; int ident = 1;
			for (i = 0; i < r; i++) { g_rand_script[i] = (int) (y % r); y /= r; if (g_rand_script[i] != i) ident = 0; }
			if (ident) continue;
			g_rand_nscript = r;
			fn (arg);
		}
		g_rand_nscript = 0;
		return;
	}
	for (i = 0; i < r && i < RANDMAX_SCRIPT; i++)
		for (a = 0; a < r; a++) {
			if (a == i) continue;
			for (j = 0; j < RANDMAX_SCRIPT; j++) g_rand_script[j] = -1;
			g_rand_script[i] = a; g_rand_nscript = i + 1;
			fn (arg);
			if (dev >= 2 && r <= 5)	/* two deviations only where the product stays small */
				for (j = i + 1; j < r && j < RANDMAX_SCRIPT; j++)
					for (b = 0; b < r; b++) {
						if (b == j) continue;
						g_rand_script[j] = b; g_rand_nscript = j + 1;
						fn (arg);
						g_rand_script[j] = -1;
					}
			g_rand_nscript = 0;
		}
	g_rand_nscript = 0;
}

/* ------------------------------------------------------------------ BFS */
typedef struct { vf_h128 d; hist_t h; uint8_t terminal; } node_t;
typedef struct { node_t *q; long nq, capq; long *idx; size_t cap; } bfs_t;

static long bfs_find (bfs_t *b, vf_h128 d)
{
	size_t i = (size_t) (d.a & (b->cap - 1));
	while (b->idx[i] >= 0) {
		node_t *nd = &b->q[b->idx[i]];
		if (nd->d.a == d.a && nd->d.b == d.b) return b->idx[i];
		i = (i + 1) & (b->cap - 1);
	}
	return -1;
}
static void bfs_rehash (bfs_t *b, size_t ncap)
{
	long j;
	free (b->idx);
	b->cap = ncap;
	b->idx = malloc (sizeof (long) * ncap);
	memset (b->idx, 0xff, sizeof (long) * ncap);
	for (j = 0; j < b->nq; j++) {
		size_t i = (size_t) (b->q[j].d.a & (b->cap - 1));
		while (b->idx[i] >= 0) i = (i + 1) & (b->cap - 1);
		b->idx[i] = j;
	}
}
static long bfs_add (bfs_t *b, vf_h128 d, const hist_t *h, int terminal)
{
	size_t i;
	if (b->nq == b->capq) { b->capq = b->capq ? b->capq * 2 : 1024; b->q = realloc (b->q, sizeof (node_t) * (size_t) b->capq); }
	if ((size_t) b->nq * 10 >= b->cap * 6) bfs_rehash (b, b->cap * 2);
	b->q[b->nq].d = d; b->q[b->nq].h = *h; b->q[b->nq].terminal = (uint8_t) terminal;
	i = (size_t) (d.a & (b->cap - 1));
	while (b->idx[i] >= 0) i = (i + 1) & (b->cap - 1);
	b->idx[i] = b->nq;
	return b->nq++;
}

typedef struct { bfs_t *b; hist_t h; long parent; long audits_left; int sas_limit; long state_cap; } bfsctx_t;

static int g_outcome_fin_ok, g_outcome_fin_fail;

static void bfs_try (void *arg)
{
	bfsctx_t *x = arg;
	bfs_t *b = x->b;
	vf_h128 pre, d;
	int fin = 0;
	long at;
	d = run_hist (&x->h, &pre, &fin);
	vf_stat_add (st_trans, 1);
	if (g_rand_nscript) vf_stat_add (st_randscripts, 1);
	/* canon-on-replay: the prefix must reproduce the parent's digest */
	if (x->parent >= 0 && (pre.a != b->q[x->parent].d.a || pre.b != b->q[x->parent].d.b)) {
		vf_viol ("MACHINERY", "kind=replay-divergence", "%s", g_case);
	}
	if (x->parent >= 0 && d.a == b->q[x->parent].d.a && d.b == b->q[x->parent].d.b) { vf_stat_add (st_selfloops, 1); return; }
	at = bfs_find (b, d);
	if (at >= 0) {
		vf_stat_add (st_merges, 1);
		/* merge audit: equal digests must have equal futures */
		if (x->audits_left > 0 && !fin && !b->q[at].terminal && !g_rand_nscript) {
			int e;
			x->audits_left--;
			vf_stat_add (st_audits, 1);
			for (e = 0; e <= G.n; e++) {
				hist_t h1 = b->q[at].h, h2 = x->h;
				vf_h128 d1, d2;
				if (h1.has_sas != h2.has_sas) break;
				if (h1.has_sas && e < G.n) continue;
				if (h1.nops >= MAXOPS - 1 || h2.nops >= MAXOPS - 1) break;
				h1.ops[h1.nops++] = (uint8_t) (e == G.n ? 0xFF : e);
				h2.ops[h2.nops++] = (uint8_t) (e == G.n ? 0xFF : e);
				d1 = run_hist (&h1, NULL, NULL);
				d2 = run_hist (&h2, NULL, NULL);
				if (d1.a != d2.a || d1.b != d2.b) { hist_case (&h2); vf_viol ("MACHINERY", "kind=merge-audit-mismatch", "%s", g_case); }
			}
		}
		return;
	}
	if (b->nq >= x->state_cap) return;
	bfs_add (b, d, &x->h, fin);
	/* the same history again without looking at the session between the operations: every oracle must hold on what
	 * the application sees at the end (queries are not allowed to be what makes the decoder work) */
	if (x->h.nops + (x->h.has_sas ? 1 : 0) >= 2) { g_quiet_run = 1; run_hist (&x->h, NULL, NULL); g_quiet_run = 0; vf_stat_add (st_quiet, 1); }
}

static void bfs_config (const cfg_t *c, int sas_limit, long state_cap, long audits)
{
	bfs_t b;
	bfsctx_t x;
	hist_t h0;
	long cur;
	int e, capped = 0;
	G = *c;
	make_codeword (c);
	memset (&b, 0, sizeof b);
	b.cap = 1 << 12; b.idx = malloc (sizeof (long) * b.cap); memset (b.idx, 0xff, sizeof (long) * b.cap);
	memset (&h0, 0, sizeof h0);
	memset (&x, 0, sizeof x);
	x.b = &b; x.audits_left = audits; x.state_cap = state_cap; x.parent = -1;
	g_rand_nscript = 0;
	{
		vf_h128 d0 = run_hist (&h0, NULL, NULL);
		bfs_add (&b, d0, &h0, 0);
	}
	for (cur = 0; cur < b.nq; cur++) {
		hist_t h = b.q[cur].h;
		if (b.q[cur].terminal) continue;
		if (vf_deadline_hit ()) { capped = 2; break; }
		x.parent = cur;
		if (h.nops >= g_maxdepth) { capped = capped ? capped : 3; continue; }	/* declared depth bound of this grid */
		/* FINISH (with rand() scripts) */
		if (!g_nofinish) {
			x.h = h; x.h.ops[x.h.nops++] = 0xFF;
			for_rand_scripts (G.r, g_randdev, bfs_try, &x);
		}
		if (h.has_sas) continue;		/* SAS is never mixed with DWS */
		/* DWS(e), duplicates included */
		if (h.nops < MAXOPS - 2)
			for (e = 0; e < G.n; e++) { x.h = h; x.h.ops[x.h.nops++] = (uint8_t) e; bfs_try (&x); }
		/* SAS(S) as first submission */
		if (h.nops == 0 && G.n <= sas_limit) {
			uint64_t S;
			for (S = 0; S < ((uint64_t) 1 << G.n); S++) { x.h = h; x.h.has_sas = 1; x.h.sas = S; bfs_try (&x); }
		}
		if (b.nq >= state_cap) { capped = 1; }
	}
	if (capped == 1) vf_incomplete ("cfg %d:%d:%d:%d:%d:%d cb=%d: state cap %ld reached", c->codec, c->m, c->k, c->r, c->N1, c->seed, c->cbmode, state_cap);
	if (capped == 3) vf_note ("cfg %d:%d:%d:%d:%d:%d cb=%d: explored to the declared depth bound %d (%ld states)", c->codec, c->m, c->k, c->r, c->N1, c->seed, c->cbmode, g_maxdepth, b.nq);
	if (capped == 2) vf_incomplete ("cfg %d:%d:%d:%d:%d:%d cb=%d: deadline reached after %ld of %ld states expanded", c->codec, c->m, c->k, c->r, c->N1, c->seed, c->cbmode, cur, b.nq);
	vf_stat_add (st_states, b.nq);
	vf_stat_add (st_cfgs, 1);
	{
		char nm[64];
		snprintf (nm, sizeof nm, "states_per_cfg:codec%d%s", c->codec, c->codec == 2 ? (c->m == 4 ? "m4" : "m8") : "");
		vf_outcome (nm, b.nq);
	}
	flush_outcomes ();
	if (b.nq > 3) { hist_case (&b.q[b.nq - 1].h); vf_sample ("bfs deepest state: %s (states=%ld)", g_case, b.nq); }
	free (b.q); free (b.idx);
	free_codeword (c);
}

/* ------------------------------------------------------------------ scenario executor (any n) */
/* token grammar (comma separated):  D<e> | F | Sm<hex> | A<spec> | B<spec> | R<spec> | S<spec>
 *   A: DWS in ascending ESI order, B: descending, R: repairs (ascending) then sources (ascending), S: SAS
 *   Z: LDPC only: sources outside equation 0 (ascending), then the sources of equation 0, then repairs (ascending): the
 *      last source of equation 0 starts the longest possible peeling cascade along the staircase
 *   C / E / G: DWS in the order e = (a*i + 1) mod n, i = 0..n-1, with a = the first value >= 7 / 31 / n/2+1 coprime with n (scattered arrival)
 *   spec:  a-<e.e.e>   all except the listed ESIs (list may be empty)
 *          o<e.e.e>    only the listed ESIs
 *          w<a>+<w>    cyclic window [a, a+w) received
 *          p<p>.<q>    e lost iff e mod p == q
 *          x<e.e>/<e.e> all sources except the first list, only the repairs of the second list
 *          y<e>        (LDPC) all sources except e, only the repair symbols of the equations containing e
 *          m<hex>      bit mask (n <= 64)                                                          */
static int parse_spec (const char *s, unsigned char *mem)
{
	int n = G.n, e;
	memset (mem, 0, (size_t) n);
	if (s[0] == 'a' || s[0] == 'o') {
		const char *p = s + 1;
		int all = s[0] == 'a';
		if (all) { memset (mem, 1, (size_t) n); if (*p == '-') p++; }
		while (*p && isdigit ((unsigned char) *p)) {
			e = (int) strtol (p, (char **) &p, 10);
			if (e >= 0 && e < n) mem[e] = (unsigned char) !all;
			if (*p == '.') p++;
		}
		return 1;
	}
	if (s[0] == 'x') {	/* x<lost sources>/<received repairs>: all sources but the listed ones, only the listed repairs */
		const char *p = s + 1;
		for (e = 0; e < G.k; e++) mem[e] = 1;
		while (*p && *p != '/') { e = (int) strtol (p, (char **) &p, 10); if (e >= 0 && e < G.k) mem[e] = 0; if (*p == '.') p++; }
		if (*p == '/') p++;
		while (*p && isdigit ((unsigned char) *p)) { e = (int) strtol (p, (char **) &p, 10); if (e >= G.k && e < n) mem[e] = 1; if (*p == '.') p++; }
		return 1;
	}
	if (s[0] == 'y' && Href) {	/* y<e>: every source but e, plus the repair symbols p_j of the equations j that contain e */
		int miss = atoi (s + 1), j;
		for (e = 0; e < G.k; e++) mem[e] = (unsigned char) (e != miss);
		if (miss >= 0 && miss < G.k) for (j = 0; j < G.r; j++) if (bm_get (Href, j, miss)) mem[G.k + j] = 1;
		return 1;
	}
	if (s[0] == 'w') { int a, wd, i; if (sscanf (s + 1, "%d+%d", &a, &wd) != 2) return 0; for (i = 0; i < wd && i < n; i++) mem[(a + i) % n] = 1; return 1; }
	if (s[0] == 'p') { int p, q; if (sscanf (s + 1, "%d.%d", &p, &q) != 2 || p <= 0) return 0; for (e = 0; e < n; e++) mem[e] = (unsigned char) (e % p != q); return 1; }
	if (s[0] == 'm') { unsigned long long mk = strtoull (s + 1, NULL, 16); for (e = 0; e < n && e < 64; e++) mem[e] = (unsigned char) ((mk >> e) & 1); return 1; }
	return 0;
}

/* prelude "P<dr>": an earlier decoder session of the same codec, field, k and symbol length but with G.r + dr repair symbols has
 * rebuilt a lost source symbol in this process and was released (what a receiver does block after block; whatever it leaves
 * behind for the next session - a cached context, a matrix - must not depend on the old n). No oracle: it only sets the stage. */
static void prelude_session (int dr, int otherfield)	/* otherfield: codec 2 only, the earlier session used the other field size (m = 4 <-> 8) */
{
	of_session_t *s = NULL; int r = G.r + dr, i, m = G.m; void **st;
	of_codec_id_t id = G.codec == 1 ? OF_CODEC_REED_SOLOMON_GF_2_8_STABLE : OF_CODEC_REED_SOLOMON_GF_2_M_STABLE;
	if (r < 1 || (G.codec != 1 && G.codec != 2)) return;
	if (otherfield) { if (G.codec != 2) return; m = G.m == 4 ? 8 : 4; if (m == 4 && G.k + r > 15) return; }
	if (of_create_codec_instance (&s, id, OF_DECODER, 0) != OF_STATUS_OK || !s) return;
	if (G.codec == 1) { of_rs_parameters_t p; memset (&p, 0, sizeof p); p.nb_source_symbols = (UINT32) G.k; p.nb_repair_symbols = (UINT32) r; p.encoding_symbol_length = (UINT32) G.len; if (of_set_fec_parameters (s, (of_parameters_t *) &p) != OF_STATUS_OK) { of_release_codec_instance (s); return; } }
	else { of_rs_2_m_parameters_t p; memset (&p, 0, sizeof p); p.nb_source_symbols = (UINT32) G.k; p.nb_repair_symbols = (UINT32) r; p.encoding_symbol_length = (UINT32) G.len; p.m = (UINT16) m; if (of_set_fec_parameters (s, (of_parameters_t *) &p) != OF_STATUS_OK) { of_release_codec_instance (s); return; } }
	for (i = 1; i < G.k; i++) of_decode_with_new_symbol (s, CW[i], (UINT32) i);
	of_decode_with_new_symbol (s, CW[G.k + r - 1], (UINT32) (G.k + r - 1));
	if (!of_is_decoding_complete (s)) of_finish_decoding (s);
	st = calloc ((size_t) G.k, sizeof (void *));
	if (of_get_source_symbols_tab (s, st) == OF_STATUS_OK) for (i = 0; i < G.k; i++) if (st[i] && st[i] != CW[i]) free (st[i]);
	free (st);
	of_release_codec_instance (s);
}

static void run_scenario (const char *ops)
{
	world_t *w;
	char tok[512];
	const char *p = ops;
	unsigned char *mem = malloc ((size_t) G.n + 1);
	char c[96], r[200];
	int e;
	cfg_str (c, sizeof c, &G); rand_str (r, sizeof r);
	snprintf (g_case, sizeof g_case, "%s %s ops=%s", c, r, ops);
	memcpy (vf_slot (), g_case, sizeof g_case);
	vf_stat_add (st_exec, 1);
	if (ops[0] == 'P') prelude_session (atoi (ops + 1), 0);
	if (ops[0] == 'X') prelude_session (atoi (ops + 1), 1);
	w = world_new ();
	if (!world_open (w)) { world_close (w); free (mem); return; }
	if (!strncmp (ops, "Q,", 2) && ops[2]) { w->quiet = 1; g_mute = 1; }
	observe (w, 0, 0, 1);
	g_mute = 0;
	while (*p) {
		size_t l = strcspn (p, ",");
		if (l >= sizeof tok) l = sizeof tok - 1;
		memcpy (tok, p, l); tok[l] = 0;
		p += l; if (*p == ',') p++;
		if (!tok[0]) continue;
		if (tok[0] == 'Q' && !tok[1]) { w->quiet = 1; continue; }
		g_mute = w->quiet && *p != 0;	/* quiet scenario: only the last operation is observed */
		vf_stat_add (st_trans, 1);
		if (tok[0] == 'F') op_fin (w);
		else if (tok[0] == 'D') op_dws (w, atoi (tok + 1), 1);
		else if (tok[0] == 'S') { if (parse_spec (tok + 1, mem)) op_sas (w, mem); }
		else if (tok[0] == 'Z' && Href) {
			int cnt = 0, total = 0, pass;
			if (!parse_spec (tok + 1, mem)) continue;
			for (e = 0; e < G.n; e++) total += mem[e];
			for (pass = 0; pass < 2; pass++)
				for (e = 0; e < G.k; e++) if (mem[e] && bm_get (Href, 0, e) == pass) { cnt++; op_dws (w, e, G.n <= 64 || cnt == total || cnt % 16 == 0); }
			for (e = G.k; e < G.n; e++) if (mem[e]) { cnt++; op_dws (w, e, 1); }
			vf_stat_add (st_trans, total > 0 ? total - 1 : 0);
		}
		else if (tok[0] == 'C' || tok[0] == 'E' || tok[0] == 'G') {
			int a = tok[0] == 'C' ? 7 : tok[0] == 'E' ? 31 : G.n / 2 + 1, i2, cnt = 0, total = 0, x, y, t2;
			if (!parse_spec (tok + 1, mem)) continue;
			for (;; a++) { x = a; y = G.n; while (y) { t2 = x % y; x = y; y = t2; } if (x == 1) break; }
			for (e = 0; e < G.n; e++) total += mem[e];
			for (i2 = 0; i2 < G.n; i2++) { e = (int) (((long) a * i2 + 1) % G.n); if (mem[e]) { cnt++; op_dws (w, e, G.n <= 64 || cnt == total || cnt % 16 == 0); } }
			vf_stat_add (st_trans, total > 0 ? total - 1 : 0);
		}
		else if (tok[0] == 'A' || tok[0] == 'B' || tok[0] == 'R') {
			int cnt = 0, total = 0;
			if (!parse_spec (tok + 1, mem)) continue;
			for (e = 0; e < G.n; e++) total += mem[e];
			if (tok[0] == 'A') { for (e = 0; e < G.n; e++) if (mem[e]) { cnt++; op_dws (w, e, G.n <= 64 || cnt == total || cnt % 16 == 0); } }
			else if (tok[0] == 'B') { for (e = G.n - 1; e >= 0; e--) if (mem[e]) { cnt++; op_dws (w, e, G.n <= 64 || cnt == total || cnt % 16 == 0); } }
			else {
				for (e = G.k; e < G.n; e++) if (mem[e]) { cnt++; op_dws (w, e, G.n <= 64 || cnt == total || cnt % 16 == 0); }
				for (e = 0; e < G.k; e++) if (mem[e]) { cnt++; op_dws (w, e, G.n <= 64 || cnt == total || cnt % 16 == 0); }
			}
			vf_stat_add (st_trans, total > 0 ? total - 1 : 0);
		}
	}
	g_mute = 0;
	{
		char nm[64];
		snprintf (nm, sizeof nm, "codec%d:%s:%s", G.codec, w->finished ? (w->last_st == OF_STATUS_OK ? "finish-ok" : "finish-fail") : "nofinish", w->last_complete ? "complete" : "incomplete");
		vf_outcome (nm, 1);
	}
	vf_stat_add (st_cb_calls, w->cb_total);
	world_close (w);
	free (mem);
	{ static int cnt; if ((++cnt & 255) == 0) flush_outcomes (); }
}

/* ------------------------------------------------------------------ configuration grids */
static cfg_t *CF;
static long NCF, CAPCF;
static void add_cfg (int codec, int m, int k, int r, int N1, int seed, int extra, int align, int cbmode, uint64_t Z)
{
	cfg_t c;
	memset (&c, 0, sizeof c);
	c.codec = codec; c.m = m; c.k = k; c.r = r; c.n = k + r; c.N1 = N1; c.seed = seed; c.align = align; c.cbmode = cbmode; c.Z = Z;
	c.len = idlen_needed (&c) + extra;
	if (NCF == CAPCF) { CAPCF = CAPCF ? CAPCF * 2 : 256; CF = realloc (CF, sizeof (cfg_t) * (size_t) CAPCF); }
	CF[NCF++] = c;
}

/* callback policies for one (codec,k,..): depends on property */
static void add_with_cb (int codec, int m, int k, int r, int N1, int seed, const char *cbset, int thorough)
{
	int i, j;
	if (strchr (cbset, 'n')) add_cfg (codec, m, k, r, N1, seed, 4, 0, 0, 0);
	if (strchr (cbset, 'b')) add_cfg (codec, m, k, r, N1, seed, 4, 0, 1, 0);
	if (strchr (cbset, 'N')) add_cfg (codec, m, k, r, N1, seed, 4, 0, 2, 0);
	if (strchr (cbset, 'r')) add_cfg (codec, m, k, r, N1, seed, 4, 0, 4, 0);
	if (strchr (cbset, 'z')) {	/* NULL-sets Z: all 2^k when k <= 6 (thorough: always |Z|<=2 otherwise), else |Z| <= 1 (quick) */
		if (k <= (thorough ? 6 : 3)) {
			uint64_t Z;
			for (Z = 1; Z + 1 < ((uint64_t) 1 << k); Z++) add_cfg (codec, m, k, r, N1, seed, 4, 0, 3, Z);
		} else {
			for (i = 0; i < k; i++) {
				add_cfg (codec, m, k, r, N1, seed, 4, 0, 3, (uint64_t) 1 << i);
				if (thorough) for (j = i + 1; j < k; j++) add_cfg (codec, m, k, r, N1, seed, 4, 0, 3, ((uint64_t) 1 << i) | ((uint64_t) 1 << j));
			}
		}
	}
}

/* does the 2D codec accept (k,r)? asked to the library in a forked child (a crash means "no") */
static void probe_2d (long it, void *arg)
{
	of_session_t *s = NULL;
	of_2d_parity_parameters_t p;
	int k = (int) (it / 64), r = (int) (it % 64);
	(void) arg;
	memset (&p, 0, sizeof p); p.nb_source_symbols = (UINT32) k; p.nb_repair_symbols = (UINT32) r; p.encoding_symbol_length = 4;
	if (of_create_codec_instance (&s, OF_CODEC_2D_PARITY_MATRIX_STABLE, OF_DECODER, 0) != OF_STATUS_OK || !s) _exit (1);
	if (of_set_fec_parameters (s, (of_parameters_t *) &p) != OF_STATUS_OK) _exit (1);
	of_release_codec_instance (s);
}
static int accepted_2d (int k, int r) { return vf_run_isolated (probe_2d, (long) k * 64 + r, NULL, 20, NULL, NULL, 0) == 0; }

static void grid_bfs (const char *which, const char *cbset, int thorough)
{
	int k, r, N1, s;
	if (strstr (which, "rs")) {
		int Nrs = (int) vf_opt_long ("nrs", thorough ? 9 : 6);
		int N4 = (int) vf_opt_long ("nrs4", thorough ? 9 : 6);
		for (k = 1; k < Nrs; k++) for (r = 1; k + r <= Nrs; r++) { add_with_cb (1, 8, k, r, 0, 0, cbset, thorough); add_with_cb (2, 8, k, r, 0, 0, cbset, thorough); }
		for (k = 1; k < N4; k++) for (r = 1; k + r <= N4; r++) add_with_cb (2, 4, k, r, 0, 0, cbset, thorough);
	}
	if (strstr (which, "2d")) {
		int nmax = (int) vf_opt_long ("nmax2d", thorough ? 14 : 11);
		for (k = 1; k <= 16; k++) for (r = 1; r <= 23; r++) if (k + r <= nmax && accepted_2d (k, r)) add_with_cb (5, 0, k, r, 0, 0, "n", thorough);
	}
	if (strstr (which, "lowrate")) {
		/* low code rate, small k, large N1: columns with many entries, rows padded with extra entries; one arriving
		 * symbol can bring five or more equations to degree one at once (growth of the degree-1 table). Too many
		 * symbols for all orders: every order of every prefix up to --maxdepth symbols. */
		static const int lr_q[][4] = {{3, 12, 5, 1}, {2, 14, 7, 3}, {4, 12, 6, 2}, {3, 13, 7, 5}, {4, 14, 5, 9}, {2, 10, 5, 4}, {4, 13, 7, 6}, {3, 14, 6, 8}};
		static const int lr_t[][4] = {{4, 22, 7, 260}, {4, 22, 7, 1}, {3, 20, 7, 2}, {4, 18, 6, 3}, {5, 20, 7, 4}, {3, 24, 5, 5}, {4, 20, 5, 6}, {2, 24, 7, 7}};
		int i;
		for (i = 0; i < 8; i++) add_with_cb (3, 0, lr_q[i][0], lr_q[i][1], lr_q[i][2], lr_q[i][3], cbset, thorough);
		if (thorough) for (i = 0; i < 8; i++) add_with_cb (3, 0, lr_t[i][0], lr_t[i][1], lr_t[i][2], lr_t[i][3], cbset, thorough);
	} else if (strstr (which, "ldpc")) {
		int kmax = (int) vf_opt_long ("kmax", thorough ? 7 : 5), rmax = (int) vf_opt_long ("rmax", thorough ? 7 : 5), nmax = (int) vf_opt_long ("nmax", thorough ? 12 : 9);
		static const int seeds_q[] = {1, 2}, seeds_t[] = {1, 2, 3, 7, 2147483646};
		const int *seeds = thorough ? seeds_t : seeds_q;
		int ns = thorough ? 5 : 2;
		for (k = 1; k <= kmax; k++) for (r = 3; r <= rmax; r++) {
			if (k + r > nmax) continue;
			for (N1 = 3; N1 <= r && N1 <= (thorough ? 6 : 5); N1++) for (s = 0; s < ns; s++) add_with_cb (3, 0, k, r, N1, seeds[s], cbset, thorough);
		}
	}
}

/* ------------------------------------------------------------------ work items */
static int g_sas_limit; static long g_state_cap, g_audits;

static void item_bfs (long it, void *arg)
{
	(void) arg;
	vf_slot_set_prop (PROP);
	bfs_config (&CF[it], g_sas_limit, g_state_cap, g_audits);
}

/* subsets mode: item = (config, chunk of masks) */
typedef struct { long cfg; uint64_t lo, hi; } chunk_t;
static chunk_t *CH; static long NCH;
static void subset_one (void *arg)
{
	char ops[64];
	uint64_t S = *(uint64_t *) arg;
	snprintf (ops, sizeof ops, "Sm%llx,F", (unsigned long long) S); run_scenario (ops);
	snprintf (ops, sizeof ops, "Am%llx,F", (unsigned long long) S); run_scenario (ops);
}
static void item_subsets (long it, void *arg)
{
	uint64_t S;
	char ops[64];
	(void) arg;
	vf_slot_set_prop (PROP);
	G = CF[CH[it].cfg];
	make_codeword (&G);
	for (S = CH[it].lo; S < CH[it].hi; S++) {
		if ((S & 1023) == 0 && vf_deadline_hit ()) { vf_incomplete ("subsets: deadline in cfg %ld at mask %llx", CH[it].cfg, (unsigned long long) S); break; }
		for_rand_scripts (G.r, (S % 7 == 0) ? g_randdev : 0, subset_one, &S);
		/* streaming only (no FINISH), descending order: a different order reaching the same set */
		snprintf (ops, sizeof ops, "Bm%llx", (unsigned long long) S); g_rand_nscript = 0; run_scenario (ops);
		vf_stat_add (st_states, 1);
	}
	flush_outcomes ();
	free_codeword (&G);
}

/* large mode: item = one scenario string on one config */
typedef struct { long cfg; char ops[200]; } scen_t;
static scen_t *SC; static long NSC, CAPSC;
static void add_scen (long cfg, const char *fmt, ...)
{
	va_list ap;
	if (NSC == CAPSC) { CAPSC = CAPSC ? CAPSC * 2 : 4096; SC = realloc (SC, sizeof (scen_t) * (size_t) CAPSC); }
	SC[NSC].cfg = cfg;
	va_start (ap, fmt); vsnprintf (SC[NSC].ops, sizeof SC[NSC].ops, fmt, ap); va_end (ap);
	NSC++;
}
static long g_last_cfg = -1;
static void item_scen (long it, void *arg)
{
	(void) arg;
	vf_slot_set_prop (PROP);
	if (vf_deadline_hit ()) { vf_incomplete ("large: deadline before scenario %ld", it); return; }
	if (g_last_cfg != SC[it].cfg) {
		if (g_last_cfg >= 0) free_codeword (&G);
		G = CF[SC[it].cfg]; make_codeword (&G); g_last_cfg = SC[it].cfg;
	}
	g_rand_nscript = 0;
	run_scenario (SC[it].ops);
	vf_stat_add (st_states, 1);
	if (it + vf_nworkers () >= NSC) flush_outcomes ();
}

static void build_large (int thorough, const char *which)
{
	static const int rs_kn[][2] = {{1, 2}, {1, 255}, {2, 255}, {127, 255}, {128, 255}, {200, 255}, {254, 255}, {223, 255}, {16, 32}, {32, 48}, {100, 150}};
	long c0;
	int i, a, b, q;
	if (strstr (which, "rs"))
		for (i = 0; i < (int) (sizeof rs_kn / sizeof rs_kn[0]); i++) {
			int k = rs_kn[i][0], n = rs_kn[i][1], codec;
			for (codec = 1; codec <= 2; codec++) {
				int step = thorough ? 1 : (k > 40 ? 7 : 1), rstep = thorough ? 1 : ((n - k) > 40 ? 11 : 1);
				c0 = NCF; add_cfg (codec, 8, k, n - k, 0, 0, 4, 0, 0, 0);
				add_scen (c0, "Aa-,F"); add_scen (c0, "Sa-,F"); add_scen (c0, "Ba-"); add_scen (c0, "Ca-,F"); add_scen (c0, "Ga-1,F");
				/* the two extreme k-subsets */
				add_scen (c0, "Aw0+%d,F", k); add_scen (c0, "Sw%d+%d,F", n - k, k); add_scen (c0, "Bw%d+%d", n - k, k);
				add_scen (c0, "Sw0+%d,F", k - 1 > 0 ? k - 1 : 0);		/* k-1 symbols: must fail */
				/* one lost source replaced by exactly one repair, every (source, repair) pair on a stride */
				for (a = 0; a < k; a += step)
					for (b = k; b < n; b += rstep)
						add_scen (c0, "%cx%d/%d,F", (a + b) & 1 ? 'S' : 'R', a, b);
				/* two lost sources replaced by two repairs (thorough, bounded product) */
				if (thorough && (long) k * k * (n - k) * (n - k) / 4 <= 400000) {
					int a2, b2;
					for (a = 0; a < k; a++) for (a2 = a + 1; a2 < k; a2++)
						for (b = k; b < n; b++) for (b2 = b + 1; b2 < n; b2++)
							add_scen (c0, "Sx%d.%d/%d.%d,F", a, a2, b, b2);
				}
				/* windows and periodic patterns (completely enumerated families) */
				{
					int wl[4] = {k - 1, k, k + 1, k + (n - k) / 2}, wi;
					int astep = thorough ? 1 : (n > 60 ? 13 : 1);
					for (wi = 0; wi < 4; wi++) {
						if (wl[wi] < 0 || wl[wi] > n) continue;
						for (a = 0; a < n; a += astep) { add_scen (c0, "Sw%d+%d,F", a, wl[wi]); if (thorough || a % 3 == 0) add_scen (c0, "Bw%d+%d,F", a, wl[wi]); }
					}
					for (b = 2; b <= 7; b++) { if (b == 6) continue; for (q = 0; q < b; q++) { add_scen (c0, "Sp%d.%d,F", b, q); add_scen (c0, "Rp%d.%d,F", b, q); } }
				}
				/* single and double losses */
				for (a = 0; a < n; a += step) {
					add_scen (c0, "Sa-%d,F", a); add_scen (c0, "Aa-%d", a);
					if (thorough && (long) n * n <= 70000) for (b = a + 1; b < n; b += step) add_scen (c0, "Sa-%d.%d,F", a, b);
				}
			}
		}
	if (strstr (which, "rs")) {
		/* k sweep: every k (n = k+3) with one, two and three erased sources replaced by repairs, both codecs */
		int k, codec;
		for (codec = 1; codec <= 2; codec++)
			for (k = 4; k <= 252; k += thorough ? 1 : (k < 70 ? 1 : 3)) {
				c0 = NCF; add_cfg (codec, 8, k, 3, 0, 0, 4, 0, 0, 0);
				add_scen (c0, "Sx%d/%d,F", k / 2, k + 1);
				add_scen (c0, "Rx0.%d/%d.%d,F", k - 1, k, k + 2);
				add_scen (c0, "Bx0.1.%d/%d.%d.%d", k - 1, k, k + 1, k + 2);
				if (k & 1) add_scen (c0, "Sa-,F");
			}
		/* block after block with the same k and a growing n: an earlier session (n-k = 3) has decoded, this one (n-k = 5) needs its last repair symbols */
		for (codec = 1; codec <= 2; codec++)
			for (k = 1; k <= 250; k += thorough ? 1 : (k < 24 ? 1 : 5)) {
				c0 = NCF; add_cfg (codec, 8, k, 5, 0, 0, 4, 0, 0, 0);
				add_scen (c0, "P-2,Rx%d/%d,F", k / 2, k + 4); add_scen (c0, "P-2,Sx0/%d,F", k + 3); add_scen (c0, "P-4,Bw5+%d", k);
				if (codec == 2 && k <= 10) { c0 = NCF; add_cfg (2, 4, k, 5, 0, 0, 4, 0, 0, 0); add_scen (c0, "P-2,Rx%d/%d,F", k / 2, k + 4); add_scen (c0, "P-3,Sx0/%d,F", k + 3); add_scen (c0, "X0,Rx%d/%d,F", k / 2, k + 4); add_scen (c0, "X-2,Sx0/%d,F", k + 3); add_scen (c0, "X0,Ba-0"); }
				if (codec == 2 && k <= 10) { add_scen (c0 - 1, "X0,Rx%d/%d,F", k / 2, k + 4); add_scen (c0 - 1, "X-2,Sx0/%d,F", k + 3); add_scen (c0 - 1, "X0,Ba-0"); }	/* the m=8 configuration of this k after an m=4 session */
			}
	}
	if (strstr (which, "rs")) {
		/* mid-range diagonal: every k with a number of repair symbols well inside the range (derived from k), and the k == n-k diagonal:
		 * the last k symbols, a window in the middle, a periodic pattern, one / two sources replaced */
		int k, codec, v;
		for (codec = 1; codec <= 2; codec++)
			for (k = 2; k <= 252; k += thorough ? 1 : (k < 40 ? 1 : 2)) for (v = 0; v < 2; v++) {
				int r = v ? k : 2 + (k * 11) % (253 - k);
				if (v && (k > 127 || (!thorough && k % 3))) continue;
				c0 = NCF; add_cfg (codec, 8, k, r, 0, 0, 4, 0, 0, 0);
				add_scen (c0, "Sw%d+%d,F", r, k); add_scen (c0, "Bw%d+%d", r / 2, k); add_scen (c0, "Sw%d+%d,F", r / 2, k - 1);
				add_scen (c0, "Rx%d/%d,F", k / 3, k + r / 2); add_scen (c0, "Sx0.%d/%d.%d,F", k - 1, k + r / 3, k + r - 1);
				if (r >= 3) add_scen (c0, "Sp3.%d,F", k % 3);
			}
	}
	if (strstr (which, "ldpc")) {
		/* r sweep and k sweep: every number of repair symbols 3..130 (k=40) and every k 3..300 (r=20), a few ML-needing patterns each */
		int k, r;
		for (r = 3; r <= (thorough ? 260 : 130); r++) {
			c0 = NCF; add_cfg (3, 0, 40, r, 3 + r % 3 <= r ? 3 + r % 3 : 3, 1 + r % 4, 4 + r % 8, 0, 0, 0);	/* symbol length 44..51: every residue modulo 8 */
			add_scen (c0, "Sw0+40,F"); add_scen (c0, "Sw%d+41,F", r / 2); add_scen (c0, "Bw%d+40,F", r); add_scen (c0, "Sp2.0,F"); add_scen (c0, "Cp3.1,F"); add_scen (c0, "Ra-1,F");
		}
		for (k = 3; k <= (thorough ? 520 : 300); k += thorough ? 1 : (k < 80 ? 1 : 4)) {
			c0 = NCF; add_cfg (3, 0, k, 20, 3 + k % 2, 1 + k % 5, 4, 0, 0, 0);
			add_scen (c0, "Sw0+%d,F", k); add_scen (c0, "Sw%d+%d,F", 7, k + 1); add_scen (c0, "Bw%d+%d,F", 20, k); add_scen (c0, "Sp3.0,F"); add_scen (c0, "Ep2.1,F");
		}
	}
	if (strstr (which, "ldpc")) {
		/* dense source columns: N1 equal or close to n-k (every source symbol in (almost) every equation) and N1 in {9, 12, 15}: one
		 * submission brings up to n-k equations to one unknown at once (tables that grow 4 or 8 entries at a time grow several times) */
		int k, r, vi;
		for (k = 2; k <= 4; k++) for (r = 3; r <= 24; r++) {
			int n1s[5], nn = 0;
			n1s[nn++] = r; if (r - 1 >= 3) n1s[nn++] = r - 1;
			if (r > 10) n1s[nn++] = 9; if (r > 13) n1s[nn++] = 12; if (r > 16) n1s[nn++] = 15;
			for (vi = 0; vi < nn; vi++) {
				if (!thorough && vi >= 2 && (r + k + vi) % 2) continue;
				c0 = NCF; add_cfg (3, 0, k, r, n1s[vi], 1 + (r + k) % 5, 4, 0, (k + r + vi) % 3 == 0, 0);
				add_scen (c0, "Ra-,F"); add_scen (c0, "Ba-"); add_scen (c0, "Aa-,F");
				for (a = 0; a < k; a++) {
					add_scen (c0, "Ra-%d", a); add_scen (c0, "Ba-%d", a); add_scen (c0, "Ra-%d,F", a); add_scen (c0, "Ca-%d", a);
					for (b = a + 1; b < k; b++) { add_scen (c0, "Ra-%d.%d,F", a, b); add_scen (c0, "Ra-%d.%d,D%d", a, b, a); add_scen (c0, "Ba-%d.%d,D%d,F", a, b, b); }
				}
				add_scen (c0, "Ra-%d.%d,F", 0, k + r - 1); add_scen (c0, "Ra-%d.%d,D%d", 0, k + r / 2, k + r / 2);
			}
		}
	}
	if (strstr (which, "ldpc")) {
		/* every number of repair symbols 131..2100 (thorough ..4200) with k = 2(n-k), short symbols: windows of 1.05k / 1.1k / 1.2k received
		 * symbols, most of which need Gaussian elimination (whose handling of the n-k repair symbols - permutations, counters - is what varies) */
		int r;
		for (r = 131; r <= (thorough ? 4200 : 2100); r++) {
			int k = 2 * r, n = 3 * r;
#ifdef __SANITIZE_ADDRESS__
			if (!thorough && r % 3) continue;	/* the AddressSanitizer runs (C07) visit every third n-k in the quick tier */
#endif
			c0 = NCF; add_cfg (3, 0, k, r, 3 + r % 3, 1 + r % 7, 0, 0, 0, 0); CF[c0].len = 8;
			add_scen (c0, "Sw%d+%d,F", r / 3, k + k / 20); add_scen (c0, "Sw%d+%d,F", (int) (((long) r * 7919) % n), k + k / 10);
			if (r % 4 == 0 || thorough) add_scen (c0, "Bw%d+%d,F", r, k + k / 5);
		}
	}
	if (strstr (which, "ldpc")) {
		/* low rates with even N1 whose number of extra entries 2(n-k) - N1*k is next to 2^8 / 2^9 (thorough: 2^16): counters of every width */
		static const int EX[] = {254, 256, 258, 512, 65536};
		int k, N1, ei;
		for (N1 = 4; N1 <= 6; N1 += 2) for (k = 3; k <= 5; k++) for (ei = 0; ei < 5; ei++) {
			int r = (EX[ei] + N1 * k) / 2, n = k + r, step;
			if (EX[ei] > 60000 && (!thorough || k != 4)) continue;
			if (!thorough && ((k + ei + N1 / 2) % 3) && EX[ei] != 256) continue;
			c0 = NCF; add_cfg (3, 0, k, r, N1, 1 + ei, 4, 0, 0, 0);
			add_scen (c0, "Aa-,F"); add_scen (c0, "Sa-,F"); add_scen (c0, "Ba-"); add_scen (c0, "Ra-,F"); add_scen (c0, "Sw%d+%d,F", k, r); add_scen (c0, "Bw%d+%d", k, r); add_scen (c0, "Sp2.0,F"); add_scen (c0, "Rp2.1,F");
			for (a = 0; a < k; a++) { add_scen (c0, "Aa-%d,F", a); add_scen (c0, "Ba-%d", a); add_scen (c0, "Za-%d", a); }
			step = n > 1000 ? n / 7 : 29;
			for (a = k; a < n; a += step) { add_scen (c0, "Bw%d+%d,F", a, k + 3); add_scen (c0, "Sw%d+%d,F", a, 2 * k + 1); }
			add_scen (c0, "Bw%d+%d", n - 6, 6); add_scen (c0, "Aw%d+%d", n - 6, 6);
			/* the last repair symbol is NOT received (what the decoder assumes about it then matters): the symbols before it, everything but it */
			add_scen (c0, "Bw%d+%d", n - 7, 6); add_scen (c0, "Aw%d+%d", n - 7, 6); add_scen (c0, "Bw%d+%d,F", n - 2 - k, k + 1); add_scen (c0, "Ba-%d", n - 1); add_scen (c0, "Aa-%d,F", n - 1); add_scen (c0, "Sa-%d,F", n - 1);
			for (a = 0; a < k; a++) { add_scen (c0, "Ba-%d.%d", a, n - 1); add_scen (c0, "D%d,D%d,D%d", n - 2, a, n - 3); }
		}
	}
	if (strstr (which, "ldpc")) {
		static const int kr[][2] = {{100, 50}, {1000, 500}, {40, 20}, {255, 64}, {1000, 10}, {700, 6}, {3000, 12}, {200, 100}, {300, 40}, {90, 264}, {60, 300}, {600, 520}};	/* the last two: more than 256 repair symbols (long peeling chains) */	/* the last three: equations with more than 255 symbols */
		for (i = 0; i < (int) (sizeof kr / sizeof kr[0]); i++) {
			int k = kr[i][0], r = kr[i][1], n = k + r, N1;
			if (!thorough && k >= 1000 && r != 10) continue;
			if (!thorough && k == 600 && 0) continue;
			for (N1 = 3; N1 <= 5; N1++) {
				int wl[6], wi, astep = thorough ? (n > 400 ? 7 : 1) : (n > 100 ? 17 : 5);
				c0 = NCF; add_cfg (3, 0, k, r, N1, 1 + i, 4 + ((N1 == 3 ? 7 : N1 == 4 ? 5 : 2) - (k + 4) % 8 + 8) % 8, 0, 0, 0);	/* symbol length = 7, 5, 2 modulo 8 for N1 = 3, 4, 5 (tails of the word-wise kernels inside large eliminations) */
				add_scen (c0, "Aa-,F"); add_scen (c0, "Sa-,F"); add_scen (c0, "Ba-"); add_scen (c0, "Ra-,F"); add_scen (c0, "Ca-"); add_scen (c0, "Ea-,F"); add_scen (c0, "Ga-0,F");
				wl[0] = k - 1; wl[1] = k; wl[2] = k + 1; wl[3] = (int) (1.05 * k + 0.999); wl[4] = (int) (1.1 * k + 0.999); wl[5] = (int) (1.2 * k + 0.999);
				for (wi = 0; wi < 6; wi++)
					for (a = 0; a < n; a += astep) {
						add_scen (c0, "Sw%d+%d,F", a, wl[wi]);
						add_scen (c0, "Bw%d+%d,F", a, wl[wi]);
						add_scen (c0, "%cw%d+%d%s", "CEG"[(a + wi) % 3], a, wl[wi], (a & 1) ? ",F" : "");
						if (thorough) add_scen (c0, "Rw%d+%d", a, wl[wi]);
					}
				for (b = 2; b <= 7; b++) { if (b == 6) continue; for (q = 0; q < b; q++) { add_scen (c0, "Sp%d.%d,F", b, q); add_scen (c0, "Bp%d.%d,F", b, q); add_scen (c0, "Rp%d.%d", b, q); add_scen (c0, "Cp%d.%d,F", b, q); add_scen (c0, "Gp%d.%d", b, q); } }
				/* long staircases: every single lost source, the rest arriving in cascade order, then only the repair symbols of its equations */
				if (r >= 257) for (a = 0; a < k && a < (thorough ? 1000 : 120); a++) add_scen (c0, "Zy%d", a);
				{
					int step = thorough ? (n > 400 ? 5 : 1) : (n > 100 ? 13 : 3);
					for (a = 0; a < n; a += step) {
						add_scen (c0, "Aa-%d,F", a); add_scen (c0, "Ba-%d", a); add_scen (c0, "Za-%d", a);
						if (thorough && n <= 200) for (b = a + 1; b < n; b += 3) add_scen (c0, "Ra-%d.%d,F", a, b);
					}
				}
			}
		}
	}
}

/* lens mode (C07): symbol lengths x alignments on a reduced list, scenario per (cfg,len,align) */

/* rows mode: LDPC, every union of at most three complete equations erased (everything else received), then FINISH,
 * through both submission APIs. Equations all of whose symbols are unknown enter ML decoding with an absent (NULL)
 * constant term; whole-row erasures are the family that produces them, the 2^n sweep reaches them only for tiny n. */
static void build_rows (int thorough)
{
	int k, r, N1, seed, smax = thorough ? 12 : 3;
	for (k = 2; k <= (thorough ? 28 : 20); k++) for (r = 3; r <= (thorough ? 16 : 12); r++) for (N1 = 3; N1 <= r && N1 <= 5; N1++) for (seed = 1; seed <= smax; seed++) {
		long c0; int a, b, c, e;
		if (k + r > 44) continue;
		c0 = NCF; add_cfg (3, 0, k, r, N1, seed, 4, 0, (k + r + seed) % 3 == 0, 0);
		G = CF[c0]; make_codeword (&G);
		for (a = 0; a < r; a++) for (b = a; b < r; b++) for (c = b; c < r; c++) {
			uint64_t lost = 0;
			if (!thorough && c != b && c != r - 1 && a != 0) continue;	/* quick: singles, pairs, and triples touching the first or last equation */
			for (e = 0; e < k + r; e++) if (bm_get (Href, a, e) || bm_get (Href, b, e) || bm_get (Href, c, e)) lost |= (uint64_t) 1 << e;
			add_scen (c0, "Sm%llx,F", (unsigned long long) (~lost & (((uint64_t) 1 << (k + r)) - 1)));
			add_scen (c0, "Am%llx,F", (unsigned long long) (~lost & (((uint64_t) 1 << (k + r)) - 1)));
		}
		free_codeword (&G);
	}
}

static void build_lens (int thorough, const char *which)
{
	static const int lens[] = {1, 2, 3, 4, 5, 6, 7, 8, 9, 10, 11, 12, 13, 14, 15, 16, 17, 18, 19, 20, 21, 22, 23, 24, 25, 26, 27, 28, 29, 30, 31, 32, 33, 34, 35, 36, 37, 38, 39, 40, 63, 64, 65, 100, 127, 128, 129, 255, 256, 257, 511, 512, 513, 1023, 1024, 1025, 1500, 2047, 2048, 2049, 4095, 4096, 4097, 8192, 16384, 32768, 65535, 65536};
	static const int base[][6] = { /* codec m k r N1 seed */
		{1, 8, 3, 2, 0, 0}, {1, 8, 5, 3, 0, 0}, {2, 8, 3, 2, 0, 0}, {2, 8, 4, 4, 0, 0}, {2, 4, 3, 2, 0, 0}, {2, 4, 7, 8, 0, 0},
		{3, 0, 4, 4, 3, 1}, {3, 0, 6, 4, 4, 2}, {3, 0, 5, 5, 5, 1}, {3, 0, 8, 6, 3, 7},
	};
	int bi, li, al;
	for (bi = 0; bi < (int) (sizeof base / sizeof base[0]); bi++)
		for (li = 0; li < (int) (sizeof lens / sizeof lens[0]); li++)
			for (al = 0; al < 8; al++) {
				long c0 = NCF;
				int k = base[bi][2], r = base[bi][3], cb;
				if (!strstr (which, base[bi][0] == 3 ? "ldpc" : "rs")) continue;
				if (!thorough && (al & 1) && lens[li] > 20) continue;
				if (lens[li] >= 100 && al > 1 && !(thorough && al == 5)) continue;
				if (lens[li] > 1500 && (al > 0 || (bi != 0 && bi != 2 && bi != 4 && bi != 6))) continue;	/* very long symbols: one configuration per codec, alignment 0 */	/* long symbols: alignments 0 and 1 (thorough: also 5) */
				for (cb = 0; cb <= 1; cb++) {
					c0 = NCF;
					add_cfg (base[bi][0], base[bi][1], k, r, base[bi][4], base[bi][5], 0, al, cb, 0);
					CF[c0].len = lens[li];
					add_scen (c0, "Aa-,F"); add_scen (c0, "Sa-0,F"); add_scen (c0, "Ba-0.1"); add_scen (c0, "Ra-0,F"); add_scen (c0, "Sw%d+%d,F", 1, k);
					add_scen (c0, "Sw%d+%d,F", r, k); add_scen (c0, "Bw%d+%d,F", r, k); add_scen (c0, "D0,D0,D%d,D%d,F", k, k);
				}
			}
	{	/* mid-range sweep: EVERY symbol length 41..2100 (thorough ..4200), configuration / alignment / callback rotating with the
		 * length (thorough: every configuration at every length): lengths that are neither small nor next to a power of two */
		int L, Lmax = thorough ? 4200 : 2100, nb = (int) (sizeof base / sizeof base[0]);
		for (L = 41; L <= Lmax; L++) for (bi = 0; bi < nb; bi++) {
			long c0; int k = base[bi][2], r = base[bi][3];
			if (!thorough && bi != L % nb) continue;
			if (!strstr (which, base[bi][0] == 3 ? "ldpc" : "rs")) continue;
			c0 = NCF; add_cfg (base[bi][0], base[bi][1], k, r, base[bi][4], base[bi][5], 0, (L / nb) % 3 == 0 ? 0 : (L / nb) % 8, (L / 7) & 1, 0);
			CF[c0].len = L;
			add_scen (c0, "Aa-,F"); add_scen (c0, "Sa-0,F"); add_scen (c0, "Ba-0.1"); add_scen (c0, "Ra-0,F"); add_scen (c0, "Sw%d+%d,F", 1, k);
			add_scen (c0, "Sw%d+%d,F", r, k); add_scen (c0, "Bw%d+%d,F", r, k); add_scen (c0, "D0,D0,D%d,D%d,F", k, k);
		}
	}
	if (strstr (which, "2d")) {	/* 2D parity with long symbols: every received subset on the three smallest codes, loss families on the others */
		static const int L2[] = {100, 127, 128, 129, 255, 256, 257, 512, 1000, 1024, 4096, 65536};
		int k, r, e;
		for (li = 0; li < 12; li++) for (k = 1; k <= 16; k++) for (r = 1; r <= 12; r++) {
			long c0;
			if (!accepted_2d (k, r)) continue;
			if (!thorough && !(k + r <= 8 || L2[li] == 128 || L2[li] == 256 || L2[li] == 1000 || li % 4 == (k + r) % 4)) continue;
			c0 = NCF; add_cfg (5, 0, k, r, 0, 0, 0, 0, 0, 0); CF[c0].len = L2[li];
			if (k + r <= 8) { uint64_t S; for (S = 0; S < ((uint64_t) 1 << (k + r)); S++) { add_scen (c0, "Sm%llx,F", (unsigned long long) S); add_scen (c0, "Am%llx,F", (unsigned long long) S); } continue; }
			add_scen (c0, "Aa-,F"); add_scen (c0, "Sa-,F"); add_scen (c0, "Sw%d+%d,F", k, r); add_scen (c0, "Aw%d+%d,F", k, r);
			for (e = 0; e < k; e++) { add_scen (c0, "Sa-%d,F", e); add_scen (c0, "Aa-%d,F", e); add_scen (c0, "Sa-%d.%d,F", e, k + (e % r)); add_scen (c0, "Ra-%d.%d,F", e, (e + 1) % k); }
		}
	}
	/* the limits */
	if (strstr (which, "rs") && strstr (which, "ldpc")) {
		long c0;
		c0 = NCF; add_cfg (1, 8, 1, 254, 0, 0, 4, 0, 0, 0); add_scen (c0, "Sw1+1,F"); add_scen (c0, "Bw254+1"); add_scen (c0, "Aa-,F");
		c0 = NCF; add_cfg (1, 8, 254, 1, 0, 0, 4, 0, 0, 0); add_scen (c0, "Sa-0,F"); add_scen (c0, "Ba-3"); add_scen (c0, "Sa-0.1,F");
		c0 = NCF; add_cfg (2, 8, 254, 1, 0, 0, 4, 0, 1, 0); add_scen (c0, "Sa-0,F"); add_scen (c0, "Ba-3"); add_scen (c0, "Sa-0.1,F");
		c0 = NCF; add_cfg (2, 8, 1, 254, 0, 0, 4, 0, 0, 0); add_scen (c0, "Sw1+1,F"); add_scen (c0, "Bw254+1"); add_scen (c0, "Aa-,F");
		c0 = NCF; add_cfg (2, 4, 14, 1, 0, 0, 4, 0, 0, 0); add_scen (c0, "Sa-0,F"); add_scen (c0, "Ba-13"); add_scen (c0, "Sa-0.1,F");
		c0 = NCF; add_cfg (2, 4, 1, 14, 0, 0, 4, 0, 1, 0); add_scen (c0, "Sw14+1,F"); add_scen (c0, "Bw3+1");
		if (thorough) {
			c0 = NCF; add_cfg (3, 0, 3, 49997, 3, 1, 4, 0, 0, 0); CF[c0].len = 8; add_scen (c0, "Aa-,F"); add_scen (c0, "Sa-0,F"); add_scen (c0, "Ba-1");
			c0 = NCF; add_cfg (3, 0, 49997, 3, 3, 1, 4, 0, 0, 0); CF[c0].len = 8; add_scen (c0, "Aa-,F"); add_scen (c0, "Sa-0,F"); add_scen (c0, "Ba-1"); add_scen (c0, "Ra-7.49998,F");
		} else {
			c0 = NCF; add_cfg (3, 0, 3, 4997, 3, 1, 4, 0, 0, 0); CF[c0].len = 8; add_scen (c0, "Aa-,F"); add_scen (c0, "Sa-0,F"); add_scen (c0, "Ba-1");
			c0 = NCF; add_cfg (3, 0, 4997, 3, 3, 1, 4, 0, 0, 0); CF[c0].len = 8; add_scen (c0, "Aa-,F"); add_scen (c0, "Sa-0,F"); add_scen (c0, "Ba-1");
		}
	}
}

static void item_replay (long it, void *arg)
{
	const char *cs = arg, *p;
	(void) it;
	vf_slot_set_prop (PROP);
	if (!cfg_parse (cs, &G)) { vf_viol ("MACHINERY", "kind=bad-replay-case", "%s", cs); return; }
	g_rand_nscript = 0;
	if ((p = strstr (cs, " rand=")) && p[6] != '-') {
		p += 6;
		while (*p && *p != ' ' && g_rand_nscript < RANDMAX_SCRIPT) { g_rand_script[g_rand_nscript++] = (int) strtol (p, (char **) &p, 10); if (*p == ',') p++; }
	}
	p = strstr (cs, " ops=");
	make_codeword (&G);
	run_scenario (p ? p + 5 : "");
	flush_outcomes ();
	free_codeword (&G);
}

int main (int argc, char **argv)
{
	const char *mode, *which, *cbset;
	int thorough;
	vf_init (argc, argv);
	PROP = vf_prop ();
	thorough = vf_tier_thorough ();
	mode = vf_opt ("mode", "bfs");
	which = vf_opt ("codecs", "rs,ldpc");
	cbset = vf_opt ("cb", "nb");
	g_randdev = (int) vf_opt_long ("randdev", 0);
	g_sas_limit = (int) vf_opt_long ("saslimit", thorough ? 12 : 9);
	g_state_cap = vf_opt_long ("statecap", thorough ? 3000000 : 400000);
	g_audits = vf_opt_long ("audits", thorough ? 300 : 40);
	g_maxdepth = (int) vf_opt_long ("maxdepth", 1000);
	g_nofinish = (int) vf_opt_long ("nofinish", 0);
#ifdef __SANITIZE_ADDRESS__
	is_asan = 1;
#endif
	st_states = vf_stat_id ("states"); st_trans = vf_stat_id ("transitions"); st_exec = vf_stat_id ("executions");
	st_merges = vf_stat_id ("merges"); st_audits = vf_stat_id ("merge_audits"); st_selfloops = vf_stat_id ("selfloops");
	st_dn = vf_stat_id ("distinct_nontrivial"); st_cfgs = vf_stat_id ("configurations"); st_finish = vf_stat_id ("finish_calls"); st_quiet = vf_stat_id ("quiet_histories");
	st_randscripts = vf_stat_id ("rand_script_deviations"); st_cb_calls = vf_stat_id ("callback_invocations"); st_releases = vf_stat_id ("releases");

	if (vf_replay_case ()) {
		vf_pool_run (1, item_replay, (void *) vf_replay_case (), 600);
		vf_finish ();
		return 0;
	}
	if (!strcmp (mode, "bfs")) {
		grid_bfs (which, cbset, thorough);
		vf_note ("bfs: %ld configurations, saslimit=%d randdev=%d statecap=%ld", NCF, g_sas_limit, g_randdev, g_state_cap);
		vf_pool_run (NCF, item_bfs, NULL, 0);
	} else if (!strcmp (mode, "subsets")) {
		/* all 2^n subsets on the n<=20 LDPC list (and RS m=4 completely) */
		long i;
		int nlist[][4] = {{12, 8, 3, 1}, {10, 10, 4, 2}, {14, 6, 3, 3}, {16, 4, 4, 1}, {12, 8, 4, 7}, {10, 10, 3, 1}, {14, 6, 4, 2}, {16, 4, 3, 5}};
		int nl = thorough ? 8 : 0, j;
		if (strstr (which, "ldpc")) {
			for (j = 0; j < nl; j++) add_cfg (3, 0, nlist[j][0], nlist[j][1], nlist[j][2], nlist[j][3], 4, 0, 0, 0);
			{ int k, r, N1; for (k = 2; k <= (thorough ? 9 : 7); k++) for (r = 3; r <= (thorough ? 7 : 6); r++) for (N1 = 3; N1 <= r && N1 <= 4; N1++) if (k + r <= (thorough ? 16 : 13)) add_cfg (3, 0, k, r, N1, 1 + (k * 7 + r) % 5, 4, 0, (k + r) & 1, 0); }
			{	/* --seeds S: every shape again with seeds 1..S (a wider family of matrices on the same dimensions) */
				int k, r, N1, sd, S = (int) vf_opt_long ("seeds", 0), nm = (int) vf_opt_long ("nmaxseeds", 14);
				for (sd = 1; sd <= S; sd++) for (k = 2; k <= 11; k++) for (r = 3; r <= 9; r++) for (N1 = 3; N1 <= r && N1 <= 5; N1++) if (k + r <= nm) add_cfg (3, 0, k, r, N1, sd, 4, 0, (k + r + sd) & 1, 0);
			}
		}
		if (strstr (which, "2d")) {
			int k, r, nmax = thorough ? 24 : 16;
			for (k = 1; k <= 16; k++) for (r = 1; r <= 23; r++) if (k + r <= nmax && accepted_2d (k, r)) add_cfg (5, 0, k, r, 0, 0, 4, 0, 0, 0);
		}
		if (strstr (which, "rs")) {
			int k, n, nmax4 = thorough ? 15 : 12, nmax8 = thorough ? 14 : 11;
			for (n = 2; n <= nmax4; n++) for (k = 1; k < n; k++) add_cfg (2, 4, k, n - k, 0, 0, 4, 0, (k + n) % 3 == 0, 0);
			for (n = 2; n <= nmax8; n++) for (k = 1; k < n; k++) { add_cfg (1, 8, k, n - k, 0, 0, 4, 0, 0, 0); add_cfg (2, 8, k, n - k, 0, 0, 4, 0, (k + n) % 3 == 1, 0); }
		}
		CH = malloc (sizeof (chunk_t) * 70000);
		for (i = 0; i < NCF; i++) {
			uint64_t tot = (uint64_t) 1 << CF[i].n, step = 1 << 13, lo;
			for (lo = 0; lo < tot && NCH < 70000; lo += step) { CH[NCH].cfg = i; CH[NCH].lo = lo; CH[NCH].hi = lo + step < tot ? lo + step : tot; NCH++; }
		}
		vf_note ("subsets: %ld configurations, %ld chunks", NCF, NCH);
		vf_stat_add (st_cfgs, NCF);
		vf_pool_run (NCH, item_subsets, NULL, 0);
	} else if (!strcmp (mode, "large") || !strcmp (mode, "lens") || !strcmp (mode, "rows")) {
		if (!strcmp (mode, "large")) build_large (thorough, which); else if (!strcmp (mode, "rows")) build_rows (thorough); else build_lens (thorough, which);
		vf_note ("%s: %ld configurations, %ld scenarios", mode, NCF, NSC);
		vf_stat_add (st_cfgs, NCF);
		vf_pool_run (NSC, item_scen, NULL, 0);
	} else {
		fprintf (stderr, "unknown mode %s\n", mode);
		return 2;
	}
	vf_stat_add (st_dn, vf_stat_get (st_states));
	vf_finish ();
	return 0;
}
