/* h_tables.c — C14: every GF table used by the RS codecs equals the field arithmetic of
 * GF(2)[x]/(x^4+x+1) resp. GF(2)[x]/(x^8+x^4+x^3+x^2+1) with generator x.
 * Complete enumeration of a finite domain: every index of every table of the three table sets.
 * The static tables of codec 1 are reached by translation-unit inclusion. */
#include "vf.h"
#include "ref.h"
#include "lib_stable/reed-solomon_gf_2_8/of_reed-solomon_gf_2_8.c"
#include "lib_stable/reed-solomon_gf_2_m/of_reed-solomon_gf_2_m_includes.h"

static int st_states, st_trans, st_exec, st_dn;
static long checked;

static void bad (const char *table, long idx, long idx2, long got, long want)
{
	char sig[128], cs[128];
	snprintf (sig, sizeof sig, "table=%s|kind=wrong-entry", table);
	snprintf (cs, sizeof cs, "table=%s i=%ld j=%ld got=%ld want=%ld", table, idx, idx2, got, want);
	vf_viol ("C14", sig, "%s", cs);
}
#define CHECK(table, i, j, got, want) do { checked++; if ((long) (got) != (long) (want)) bad (table, i, j, (long) (got), (long) (want)); } while (0)

/* ---- "generated at first use": every history of up to 3 first uses of codec 1 in a pristine process ----
 * alphabet: I = of_rs_init(), N = of_rs_new()/of_rs_free() directly, E = encoder session building a repair symbol,
 * D = decoder session (of_decode_with_new_symbol) that has to rebuild a lost source symbol, S = the same through
 * of_set_available_symbols + of_finish_decoding. Each of them needs the tables, so after each step all four tables
 * must equal the field, and the sessions must have worked. */
#include "lib_common/of_openfec_api.h"
static const char FU[] = "INEDS";
static char g_hist[8];
static void fu_tables (int step)
{
	long a, b;
	for (a = 0; a < 2 * GF_SIZE; a++) if (of_rs_gf_exp[a] != gfr_exp (8, (unsigned) (a % 255))) { vf_viol ("C14", "table=rs_gf_exp|kind=wrong-entry|firstuse", "firstuse hist=%s step=%d i=%ld", g_hist, step, a); break; }
	for (a = 1; a < 256; a++) if (of_rs_gf_log[a] != (int) gfr_log (8, (unsigned) a) || of_rs_inverse[a] != gfr_inv (8, (unsigned) a)) { vf_viol ("C14", "table=rs_gf_log/rs_inverse|kind=wrong-entry|firstuse", "firstuse hist=%s step=%d i=%ld", g_hist, step, a); break; }
	for (a = 0; a < 256; a++) { for (b = 0; b < 256; b++) if (of_gf_mul_table[a][b] != gfr_mul (8, (unsigned) a, (unsigned) b)) { vf_viol ("C14", "table=rs_gf_mul_table|kind=wrong-entry|firstuse", "firstuse hist=%s step=%d i=%ld j=%ld", g_hist, step, a, b); a = 999; break; } }
	vf_stat_add (st_trans, 2 * GF_SIZE + 2 * 255 + 65536); vf_stat_add (st_exec, 2 * GF_SIZE + 2 * 255 + 65536); vf_stat_add (st_dn, 65536 - 511);
}
static void fu_session (int kind, int step)
{
	enum { K = 5, R = 4, L = 16 };
	static unsigned char src[K][L], rep[R][L], got[K][L];
	of_session_t *s = NULL; of_rs_parameters_t p; void *tab[K + R], *st[K]; int i, j, bad = 0;
	memset (&p, 0, sizeof p); p.nb_source_symbols = K; p.nb_repair_symbols = R; p.encoding_symbol_length = L;
	for (i = 0; i < K; i++) for (j = 0; j < L; j++) src[i][j] = (unsigned char) (vf_mix64 ((uint64_t) (i * 37 + j * 101 + 5)) >> 13);
	/* reference repair symbols (systematic Vandermonde generator) */
	{ unsigned char *G = malloc ((K + R) * K); rsr_generator (8, K, K + R, G); for (i = 0; i < R; i++) for (j = 0; j < L; j++) { int c; unsigned v = 0; for (c = 0; c < K; c++) v ^= gfr_mul (8, G[(K + i) * K + c], src[c][j]); rep[i][j] = (unsigned char) v; } free (G); }
	if (of_create_codec_instance (&s, OF_CODEC_REED_SOLOMON_GF_2_8_STABLE, kind == 'E' ? OF_ENCODER : OF_DECODER, 0) != OF_STATUS_OK || of_set_fec_parameters (s, (of_parameters_t *) &p) != OF_STATUS_OK) { vf_viol ("C14", "kind=session-refused|firstuse", "firstuse hist=%s step=%d", g_hist, step); return; }
	if (kind == 'E') {
		unsigned char out[R][L];
		for (i = 0; i < K; i++) tab[i] = src[i];
		for (i = 0; i < R; i++) { tab[K + i] = out[i]; if (of_build_repair_symbol (s, tab, (UINT32) (K + i)) != OF_STATUS_OK || memcmp (out[i], rep[i], L)) bad = 1; }
	} else {
		/* sources 1 and 3 lost, repairs 0 and 2 received */
		memset (tab, 0, sizeof tab);
		tab[0] = src[0]; tab[2] = src[2]; tab[4] = src[4]; tab[K] = rep[0]; tab[K + 2] = rep[2];
		if (kind == 'D') { for (i = 0; i < K + R; i++) if (tab[i] && of_decode_with_new_symbol (s, tab[i], (UINT32) i) != OF_STATUS_OK) bad = 1; }
		else { if (of_set_available_symbols (s, tab) != OF_STATUS_OK) bad = 1; if (of_finish_decoding (s) != OF_STATUS_OK) bad = 1; }
		if (!of_is_decoding_complete (s)) bad = 1;
		memset (st, 0, sizeof st);
		if (of_get_source_symbols_tab (s, st) != OF_STATUS_OK) bad = 1;
		for (i = 0; i < K; i++) { if (!st[i] || memcmp (st[i], src[i], L)) bad = 1; else memcpy (got[i], st[i], L); if (st[i] && st[i] != src[i]) free (st[i]); }
	}
	of_release_codec_instance (s);
	if (bad) vf_viol ("C14", kind == 'E' ? "kind=encoder-wrong|firstuse" : "kind=decoder-wrong|firstuse", "firstuse hist=%s step=%d", g_hist, step);
}
static void fu_item (long it, void *arg)
{
	int len = it < 5 ? 1 : it < 30 ? 2 : 3, x = (int) (it < 5 ? it : it < 30 ? it - 5 : it - 30), i;
	(void) arg;
	vf_slot_set_prop ("C14");
	for (i = 0; i < len; i++) { g_hist[i] = FU[x % 5]; x /= 5; }
	g_hist[len] = 0;
	for (i = 0; i < len; i++) {
		snprintf (vf_slot (), VF_SLOT_LEN, "firstuse hist=%s step=%d", g_hist, i);
		switch (g_hist[i]) {
		case 'I': of_rs_init (); break;
		case 'N': { void *c = of_rs_new (3, 5); if (!c) vf_viol ("C14", "kind=of_rs_new-failed|firstuse", "firstuse hist=%s step=%d", g_hist, i); else of_rs_free (c); break; }
		default: fu_session (g_hist[i], i);
		}
		fu_tables (i);
	}
}

int main (int argc, char **argv)
{
	long a, b;
	vf_init (argc, argv);
	st_states = vf_stat_id ("states");
	st_trans = vf_stat_id ("transitions");
	st_exec = vf_stat_id ("executions");
	st_dn = vf_stat_id ("distinct_nontrivial");

	if (vf_replay_case () && !strncmp (vf_replay_case (), "firstuse hist=", 14)) {
		const char *h = vf_replay_case () + 14; long it = 0, mul = 1, base = 0; int n = 0;
		while (h[n] && strchr (FU, h[n]) && n < 3) { it += (strchr (FU, h[n]) - FU) * mul; mul *= 5; n++; }
		base = n == 1 ? 0 : n == 2 ? 5 : 30;
		vf_run_isolated (fu_item, base + it, NULL, 60, NULL, NULL, 0);
		vf_finish ();
		return 0;
	}
	/* first-use histories, each in its own pristine process (the parent has not touched codec 1 yet) */
	{ long it; for (it = 0; it < 5 + 25 + 125; it++) { char k[64] = "", f[64] = ""; if (vf_run_isolated (fu_item, it, NULL, 60, k, f, sizeof k) != 0) vf_viol ("C14", "kind=crash|firstuse", "firstuse item=%ld %s %s", it, k, f); } vf_outcome ("firstuse_histories", 155); }
	/* ---- GF(2^4) precomputed tables of codec 2 ---- */
	for (a = 0; a < 16; a++) {
		CHECK ("gf_2_4_exp", a, 0, of_gf_2_4_exp[a], gfr_exp (4, (unsigned) a));
		if (a) CHECK ("gf_2_4_log", a, 0, of_gf_2_4_log[a], gfr_log (4, (unsigned) a));
		if (a) CHECK ("gf_2_4_inv", a, 0, of_gf_2_4_inv[a], gfr_inv (4, (unsigned) a));
		if (a) CHECK ("gf_2_4_inv_mul", a, 0, gfr_mul (4, (unsigned) a, of_gf_2_4_inv[a]), 1);
		for (b = 0; b < 16; b++)
			CHECK ("gf_2_4_mul_table", a, b, of_gf_2_4_mul_table[a][b], gfr_mul (4, (unsigned) a, (unsigned) b));
		for (b = 0; b < 256; b++)
			CHECK ("gf_2_4_opt_mul_table", a, b, of_gf_2_4_opt_mul_table[a][b],
			       (gfr_mul (4, (unsigned) a, (unsigned) b >> 4) << 4) | gfr_mul (4, (unsigned) a, (unsigned) b & 15));
	}
	CHECK ("gf_2_4_log", 0, 0, of_gf_2_4_log[0], 15);	/* conventional "log 0" = field size - 1 + 1 */
	CHECK ("gf_2_4_sizes", 0, 0, sizeof of_gf_2_4_mul_table, 16 * 16 * sizeof (gf));
	CHECK ("gf_2_4_sizes", 1, 0, sizeof of_gf_2_4_opt_mul_table, 16 * 256 * sizeof (gf));
	CHECK ("gf_2_4_sizes", 2, 0, sizeof of_gf_2_4_exp, 16 * sizeof (gf));
	CHECK ("gf_2_4_sizes", 3, 0, sizeof of_gf_2_4_log, 16 * sizeof (gf));
	CHECK ("gf_2_4_sizes", 4, 0, sizeof of_gf_2_4_inv, 16 * sizeof (gf));
	vf_sample ("GF(16): 7*9=%u table=%u; inv(7)=%u table=%u; packed 0x3*0xA7=0x%02x table=0x%02x",
		   gfr_mul (4, 7, 9), of_gf_2_4_mul_table[7][9], gfr_inv (4, 7), of_gf_2_4_inv[7],
		   (gfr_mul (4, 3, 0xA) << 4) | gfr_mul (4, 3, 7), of_gf_2_4_opt_mul_table[3][0xA7]);

	/* ---- GF(2^8) precomputed tables of codec 2 ---- */
	for (a = 0; a < 256; a++) {
		CHECK ("gf_2_8_exp", a, 0, of_gf_2_8_exp[a], gfr_exp (8, (unsigned) a));
		if (a) CHECK ("gf_2_8_log", a, 0, of_gf_2_8_log[a], gfr_log (8, (unsigned) a));
		if (a) CHECK ("gf_2_8_inv", a, 0, of_gf_2_8_inv[a], gfr_inv (8, (unsigned) a));
		for (b = 0; b < 256; b++)
			CHECK ("gf_2_8_mul_table", a, b, of_gf_2_8_mul_table[a][b], gfr_mul (8, (unsigned) a, (unsigned) b));
	}
	CHECK ("gf_2_8_log", 0, 0, of_gf_2_8_log[0], 255);
	CHECK ("gf_2_8_sizes", 2, 0, sizeof of_gf_2_8_log / sizeof of_gf_2_8_log[0], 256);
	CHECK ("gf_2_8_sizes", 3, 0, sizeof of_gf_2_8_inv / sizeof of_gf_2_8_inv[0], 256);
	CHECK ("gf_2_8_sizes", 0, 0, sizeof of_gf_2_8_mul_table, 256 * 256 * sizeof (gf));
	CHECK ("gf_2_8_sizes", 1, 0, sizeof of_gf_2_8_exp / sizeof of_gf_2_8_exp[0] >= 256, 1);
	{	/* entries beyond 255 of the exp table (if any) must continue the cycle */
		size_t n = sizeof of_gf_2_8_exp / sizeof of_gf_2_8_exp[0], i;
		for (i = 256; i < n; i++) CHECK ("gf_2_8_exp", (long) i, 0, of_gf_2_8_exp[i], gfr_exp (8, (unsigned) (i % 255)));
	}
	vf_sample ("GF(256): 0x57*0x83=0x%02x table=0x%02x; inv(0x53)=0x%02x table=0x%02x; x^100=0x%02x table=0x%02x",
		   gfr_mul (8, 0x57, 0x83), of_gf_2_8_mul_table[0x57][0x83], gfr_inv (8, 0x53), of_gf_2_8_inv[0x53], gfr_exp (8, 100), of_gf_2_8_exp[100]);

	/* ---- tables generated at first use by codec 1 ---- */
	of_rs_init ();
	for (a = 0; a < 2 * GF_SIZE; a++)
		CHECK ("rs_gf_exp", a, 0, of_rs_gf_exp[a], gfr_exp (8, (unsigned) (a % 255)));
	for (a = 1; a < 256; a++) {
		CHECK ("rs_gf_log", a, 0, of_rs_gf_log[a], gfr_log (8, (unsigned) a));
		CHECK ("rs_inverse", a, 0, of_rs_inverse[a], gfr_inv (8, (unsigned) a));
	}
	CHECK ("rs_gf_log", 0, 0, of_rs_gf_log[0], GF_SIZE);
	for (a = 0; a < 256; a++)
		for (b = 0; b < 256; b++)
			CHECK ("rs_gf_mul_table", a, b, of_gf_mul_table[a][b], gfr_mul (8, (unsigned) a, (unsigned) b));
	/* a second initialisation must leave the tables unchanged (lazily built global, C12 relies on it) */
	of_rs_init ();
	for (a = 0; a < 256; a++)
		for (b = 0; b < 256; b++)
			CHECK ("rs_gf_mul_table_reinit", a, b, of_gf_mul_table[a][b], gfr_mul (8, (unsigned) a, (unsigned) b));
	vf_sample ("codec1 tables after of_rs_init: 0x57*0x83=0x%02x; log(0x1d)=%d; exp[255+7]=0x%02x", of_gf_mul_table[0x57][0x83], of_rs_gf_log[0x1d], of_rs_gf_exp[262]);

	/* the reference itself: x generates the multiplicative group (order 15 / 255), i.e. the polynomials are primitive */
	{
		int m;
		for (m = 4; m <= 8; m += 4) {
			unsigned q = (1u << m) - 1, e, seen[256] = {0}, v = 1, distinct = 0;
			for (e = 0; e < q; e++) { if (!seen[v]) { seen[v] = 1; distinct++; } v = gfr_mul (m, v, 2); }
			CHECK ("ref_primitive", m, 0, distinct, q);
			CHECK ("ref_primitive_cycle", m, 0, v, 1);
		}
	}
	vf_stat_add (st_states, 16 + 256 + 256);		/* field elements per table set */
	vf_stat_add (st_trans, checked);			/* table entries compared */
	vf_stat_add (st_exec, checked);
	vf_stat_add (st_dn, checked - 16 - 256 - 256);		/* entries with a non-zero operand pair, lower bound */
	vf_outcome ("entries_checked", checked);
	vf_finish ();
	return 0;
}
