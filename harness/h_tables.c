/* h_tables.c — C14: every GF table used by the RS codecs equals the field arithmetic of
 * GF(2)[x]/(x^4+x+1) resp. GF(2)[x]/(x^8+x^4+x^3+x^2+1) with generator x.
 * Complete enumeration of a finite domain: every index of every table of the three table sets.
 * The static tables of codec 1 are reached by translation-unit inclusion. */
#include "vf.h"
#include "ref.h"
#include "lib_stable/reed-solomon_gf_2_8/of_reed-solomon_gf_2_8.c"
#include "lib_stable/reed-solomon_gf_2_m/of_reed-solomon_gf_2_m_includes.h"

static int st_states, st_trans, st_exec, st_dn;
static long checked;

static void bad (const char *table, long idx, long idx2, long got, long want)
{
	char sig[128], cs[128];
	snprintf (sig, sizeof sig, "table=%s|kind=wrong-entry", table);
	snprintf (cs, sizeof cs, "table=%s i=%ld j=%ld got=%ld want=%ld", table, idx, idx2, got, want);
	vf_viol ("C14", sig, "%s", cs);
}
#define CHECK(table, i, j, got, want) do { checked++; if ((long) (got) != (long) (want)) bad (table, i, j, (long) (got), (long) (want)); } while (0)

int main (int argc, char **argv)
{
	long a, b;
	vf_init (argc, argv);
	st_states = vf_stat_id ("states");
	st_trans = vf_stat_id ("transitions");
	st_exec = vf_stat_id ("executions");
	st_dn = vf_stat_id ("distinct_nontrivial");

	/* ---- GF(2^4) precomputed tables of codec 2 ---- */
	for (a = 0; a < 16; a++) {
		CHECK ("gf_2_4_exp", a, 0, of_gf_2_4_exp[a], gfr_exp (4, (unsigned) a));
		if (a) CHECK ("gf_2_4_log", a, 0, of_gf_2_4_log[a], gfr_log (4, (unsigned) a));
		if (a) CHECK ("gf_2_4_inv", a, 0, of_gf_2_4_inv[a], gfr_inv (4, (unsigned) a));
		if (a) CHECK ("gf_2_4_inv_mul", a, 0, gfr_mul (4, (unsigned) a, of_gf_2_4_inv[a]), 1);
		for (b = 0; b < 16; b++)
			CHECK ("gf_2_4_mul_table", a, b, of_gf_2_4_mul_table[a][b], gfr_mul (4, (unsigned) a, (unsigned) b));
		for (b = 0; b < 256; b++)
			CHECK ("gf_2_4_opt_mul_table", a, b, of_gf_2_4_opt_mul_table[a][b],
			       (gfr_mul (4, (unsigned) a, (unsigned) b >> 4) << 4) | gfr_mul (4, (unsigned) a, (unsigned) b & 15));
	}
	CHECK ("gf_2_4_log", 0, 0, of_gf_2_4_log[0], 15);	/* conventional "log 0" = field size - 1 + 1 */
	CHECK ("gf_2_4_sizes", 0, 0, sizeof of_gf_2_4_mul_table, 16 * 16 * sizeof (gf));
	CHECK ("gf_2_4_sizes", 1, 0, sizeof of_gf_2_4_opt_mul_table, 16 * 256 * sizeof (gf));
	CHECK ("gf_2_4_sizes", 2, 0, sizeof of_gf_2_4_exp, 16 * sizeof (gf));
	CHECK ("gf_2_4_sizes", 3, 0, sizeof of_gf_2_4_log, 16 * sizeof (gf));
	CHECK ("gf_2_4_sizes", 4, 0, sizeof of_gf_2_4_inv, 16 * sizeof (gf));
	vf_sample ("GF(16): 7*9=%u table=%u; inv(7)=%u table=%u; packed 0x3*0xA7=0x%02x table=0x%02x",
		   gfr_mul (4, 7, 9), of_gf_2_4_mul_table[7][9], gfr_inv (4, 7), of_gf_2_4_inv[7],
		   (gfr_mul (4, 3, 0xA) << 4) | gfr_mul (4, 3, 7), of_gf_2_4_opt_mul_table[3][0xA7]);

	/* ---- GF(2^8) precomputed tables of codec 2 ---- */
	for (a = 0; a < 256; a++) {
		CHECK ("gf_2_8_exp", a, 0, of_gf_2_8_exp[a], gfr_exp (8, (unsigned) a));
		if (a) CHECK ("gf_2_8_log", a, 0, of_gf_2_8_log[a], gfr_log (8, (unsigned) a));
		if (a) CHECK ("gf_2_8_inv", a, 0, of_gf_2_8_inv[a], gfr_inv (8, (unsigned) a));
		for (b = 0; b < 256; b++)
			CHECK ("gf_2_8_mul_table", a, b, of_gf_2_8_mul_table[a][b], gfr_mul (8, (unsigned) a, (unsigned) b));
	}
	CHECK ("gf_2_8_log", 0, 0, of_gf_2_8_log[0], 255);
	CHECK ("gf_2_8_sizes", 2, 0, sizeof of_gf_2_8_log / sizeof of_gf_2_8_log[0], 256);
	CHECK ("gf_2_8_sizes", 3, 0, sizeof of_gf_2_8_inv / sizeof of_gf_2_8_inv[0], 256);
	CHECK ("gf_2_8_sizes", 0, 0, sizeof of_gf_2_8_mul_table, 256 * 256 * sizeof (gf));
	CHECK ("gf_2_8_sizes", 1, 0, sizeof of_gf_2_8_exp / sizeof of_gf_2_8_exp[0] >= 256, 1);
	{	/* entries beyond 255 of the exp table (if any) must continue the cycle */
		size_t n = sizeof of_gf_2_8_exp / sizeof of_gf_2_8_exp[0], i;
		for (i = 256; i < n; i++) CHECK ("gf_2_8_exp", (long) i, 0, of_gf_2_8_exp[i], gfr_exp (8, (unsigned) (i % 255)));
	}
	vf_sample ("GF(256): 0x57*0x83=0x%02x table=0x%02x; inv(0x53)=0x%02x table=0x%02x; x^100=0x%02x table=0x%02x",
		   gfr_mul (8, 0x57, 0x83), of_gf_2_8_mul_table[0x57][0x83], gfr_inv (8, 0x53), of_gf_2_8_inv[0x53], gfr_exp (8, 100), of_gf_2_8_exp[100]);

	/* ---- tables generated at first use by codec 1 ---- */
	of_rs_init ();
	for (a = 0; a < 2 * GF_SIZE; a++)
		CHECK ("rs_gf_exp", a, 0, of_rs_gf_exp[a], gfr_exp (8, (unsigned) (a % 255)));
	for (a = 1; a < 256; a++) {
		CHECK ("rs_gf_log", a, 0, of_rs_gf_log[a], gfr_log (8, (unsigned) a));
		CHECK ("rs_inverse", a, 0, of_rs_inverse[a], gfr_inv (8, (unsigned) a));
	}
	CHECK ("rs_gf_log", 0, 0, of_rs_gf_log[0], GF_SIZE);
	for (a = 0; a < 256; a++)
		for (b = 0; b < 256; b++)
			CHECK ("rs_gf_mul_table", a, b, of_gf_mul_table[a][b], gfr_mul (8, (unsigned) a, (unsigned) b));
	/* a second initialisation must leave the tables unchanged (lazily built global, C12 relies on it) */
	of_rs_init ();
	for (a = 0; a < 256; a++)
		for (b = 0; b < 256; b++)
			CHECK ("rs_gf_mul_table_reinit", a, b, of_gf_mul_table[a][b], gfr_mul (8, (unsigned) a, (unsigned) b));
	vf_sample ("codec1 tables after of_rs_init: 0x57*0x83=0x%02x; log(0x1d)=%d; exp[255+7]=0x%02x", of_gf_mul_table[0x57][0x83], of_rs_gf_log[0x1d], of_rs_gf_exp[262]);

	/* the reference itself: x generates the multiplicative group (order 15 / 255), i.e. the polynomials are primitive */
	{
		int m;
		for (m = 4; m <= 8; m += 4) {
			unsigned q = (1u << m) - 1, e, seen[256] = {0}, v = 1, distinct = 0;
			for (e = 0; e < q; e++) { if (!seen[v]) { seen[v] = 1; distinct++; } v = gfr_mul (m, v, 2); }
			CHECK ("ref_primitive", m, 0, distinct, q);
			CHECK ("ref_primitive_cycle", m, 0, v, 1);
		}
	}
	vf_stat_add (st_states, 16 + 256 + 256);		/* field elements per table set */
	vf_stat_add (st_trans, checked);			/* table entries compared */
	vf_stat_add (st_exec, checked);
	vf_stat_add (st_dn, checked - 16 - 256 - 256);		/* entries with a non-zero operand pair, lower bound */
	vf_outcome ("entries_checked", checked);
	vf_finish ();
	return 0;
}
