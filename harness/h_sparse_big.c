/* h_sparse_big.c — C17 on large matrices and long histories, with the library's REAL entry-block size (1024).
 * The breadth-first search of h_sparse.c closes the operation alphabet on matrices of a few cells; what it cannot reach
 * is whatever depends on magnitude: more entries than one allocation block, indices above 255 / 65535, more than 32 / 64
 * columns, a free list recycled hundreds of times. This harness enumerates a structured family of histories completely:
 *   shape x fill pattern x insertion order, each followed by ONE fixed script of every exported operation
 *   (delete a third, re-insert, copy, copyrows, copyrows_opt, copycols, copycols_opt, copy_filled_matrix into a larger
 *   matrix, sparse->dense->sparse, a churn of insert/delete cycles, clear, refill in another order, free),
 * and after every step compares the real structure with a bit-matrix set model: every row and every column traversal,
 * forwards and backwards, lists exactly the members in strictly increasing order; find agrees with membership (every
 * cell when the matrix has at most 2^17 cells, otherwise every member, its four neighbours and a lattice of cells);
 * inserting an existing entry returns it. ASan variant: no report; trk variant: free releases everything. */
#include "vf.h"
#include "ref.h"
#include "lib_common/linear_binary_codes_utils/of_linear_binary_code.h"

typedef struct { int R, C; } shape_t;
static const shape_t SHAPES[] = {
	{64, 64}, {65, 33}, {33, 65}, {40, 400}, {300, 300}, {257, 255}, {3, 1100}, {1100, 3}, {1, 70000}, {70000, 1}, {2, 66000}, {66000, 2}, {1030, 1030},
};
#define NSHAPES ((int) (sizeof SHAPES / sizeof SHAPES[0]))
#define NPAT 6
#define NORD 4
static const char *PN[NPAT] = {"diagonal", "border", "stripes31", "block24+antidiagonal", "staircase+3percol", "hashed"};
static const char *ON[NORD] = {"row-major", "reverse", "column-major", "even-then-odd"};

static int st_states, st_trans, st_exec, st_dn, st_checks;
static char g_desc[VF_SLOT_LEN];
static const char *g_step = "";
static void sviol (const char *kind)
{
	char sig[200];
	snprintf (sig, sizeof sig, "big|after=%s|kind=%s", g_step, kind);
	vf_viol ("C17", sig, "%s", g_desc);
}

static unsigned hsh (unsigned a, unsigned b) { unsigned x = a * 2654435761u ^ (b + 0x9E3779B9u) * 40503u; x ^= x >> 15; x *= 2246822519u; x ^= x >> 13; return x; }

static int member (int pat, int R, int C, int i, int j)
{
	switch (pat) {
	case 0: return R >= C ? (i % C == j) : (j % R == i);
	case 1: return i == 0 || j == 0 || i == R - 1 || j == C - 1;
	case 2: return (i % 31) == (j % 31) && ((long) R * C <= 200000 || (i < 40 && j < 40) || (i + j) % 97 == 0);
	case 3: return (i < 24 && j < 24) || (R >= C ? ((R - 1 - i) % C == j) : ((C - 1 - j) % R == i));
	case 4: return j == i || j == i + 1 || (hsh ((unsigned) j, 1) % (unsigned) R == (unsigned) i) || (hsh ((unsigned) j, 2) % (unsigned) R == (unsigned) i) || (hsh ((unsigned) j, 3) % (unsigned) R == (unsigned) i);
	default: return hsh ((unsigned) i, (unsigned) j * 7u + 5u) % ((long) R * C <= 100000 ? 7u : 701u) == 0;
	}
}

/* ---- model: a bit matrix and its transpose ---- */
typedef struct { of_mod2sparse *m; bitmat *M, *T; int R, C; } mat_t;
static void m_new (mat_t *a, int R, int C) { a->R = R; a->C = C; a->m = of_mod2sparse_allocate ((UINT32) R, (UINT32) C); a->M = bm_new (R, C); a->T = bm_new (C, R); }
static void m_free (mat_t *a) { of_mod2sparse_free (a->m); of_free (a->m); bm_free (a->M); bm_free (a->T); a->m = NULL; }
static void m_set (mat_t *a, int i, int j) { bm_set (a->M, i, j); bm_set (a->T, j, i); }
static void m_clr (mat_t *a, int i, int j) { bm_clr (a->M, i, j); bm_clr (a->T, j, i); }
static void m_zero (mat_t *a) { memset (a->M->w, 0, sizeof (uint64_t) * (size_t) a->M->rows * a->M->W); memset (a->T->w, 0, sizeof (uint64_t) * (size_t) a->T->rows * a->T->W); }

static int check_line (mat_t *a, int line, int by_col)
{
	/* forward and backward traversal of one row (by_col = 0) or column against the model's bits */
	const bitmat *B = by_col ? a->T : a->M;
	const uint64_t *bits = bm_row (B, line);
	int len = by_col ? a->R : a->C, w, pos;
	of_mod2entry *e;
	e = by_col ? of_mod2sparse_first_in_col (a->m, line) : of_mod2sparse_first_in_row (a->m, line);
	for (w = 0; w < B->W; w++) {
		uint64_t x = bits[w];
		while (x) {
			pos = w * 64 + __builtin_ctzll (x); x &= x - 1;
			if ((by_col ? of_mod2sparse_at_end_col (e) : of_mod2sparse_at_end_row (e))) { sviol (by_col ? "col-traversal-misses-entries" : "row-traversal-misses-entries"); return 0; }
			if ((by_col ? e->row : e->col) != pos || (by_col ? e->col : e->row) != line) { sviol (by_col ? "col-traversal-wrong" : "row-traversal-wrong"); return 0; }
			e = by_col ? of_mod2sparse_next_in_col (e) : of_mod2sparse_next_in_row (e);
		}
	}
	if (!(by_col ? of_mod2sparse_at_end_col (e) : of_mod2sparse_at_end_row (e))) { sviol (by_col ? "col-traversal-adds-entries" : "row-traversal-adds-entries"); return 0; }
	e = by_col ? of_mod2sparse_last_in_col (a->m, line) : of_mod2sparse_last_in_row (a->m, line);
	for (w = B->W - 1; w >= 0; w--) {
		uint64_t x = bits[w];
		while (x) {
			pos = w * 64 + 63 - __builtin_clzll (x); x &= ~((uint64_t) 1 << (pos & 63));
			if ((by_col ? of_mod2sparse_at_end_col (e) : of_mod2sparse_at_end_row (e))) { sviol (by_col ? "col-backward-traversal-misses-entries" : "row-backward-traversal-misses-entries"); return 0; }
			if ((by_col ? e->row : e->col) != pos || (by_col ? e->col : e->row) != line) { sviol (by_col ? "col-backward-traversal-wrong" : "row-backward-traversal-wrong"); return 0; }
			e = by_col ? of_mod2sparse_prev_in_col (e) : of_mod2sparse_prev_in_row (e);
		}
	}
	if (!(by_col ? of_mod2sparse_at_end_col (e) : of_mod2sparse_at_end_row (e))) { sviol (by_col ? "col-backward-traversal-adds-entries" : "row-backward-traversal-adds-entries"); return 0; }
	(void) len;
	return 1;
}

static int small (const mat_t *a) { return (long) a->R * a->C <= (1L << 17) && a->R <= 2048 && a->C <= 2048; }
static int check_find (mat_t *a, int i, int j, int probe)
{
	of_mod2entry *f;
	int in;
	if (i < 0 || j < 0 || i >= a->R || j >= a->C) return 1;
	f = of_mod2sparse_find (a->m, (UINT32) i, (UINT32) j);
	in = bm_get (a->M, i, j);
	if ((f != NULL) != (in != 0)) { sviol ("find-disagrees-with-membership"); return 0; }
	if (f && (f->row != i || f->col != j)) { sviol ("find-returns-wrong-entry"); return 0; }
	/* insert walks the row: on long rows the idempotence probe is made on a lattice of members only */
	if (f && probe && (small (a) || hsh ((unsigned) i, (unsigned) j) % 499 == 0 || ((i == 0 || i == a->R - 1) && (j == 0 || j == a->C - 1))) && of_mod2sparse_insert (a->m, (UINT32) i, (UINT32) j) != f) { sviol ("insert-of-existing-entry-not-idempotent"); return 0; }
	return 1;
}

static int check_big (mat_t *a, const char *step)
{
	int i, j, w;
	g_step = step;
	vf_heartbeat ();
	vf_stat_add (st_checks, 1);
	if ((int) of_mod2sparse_rows (a->m) != a->R || (int) of_mod2sparse_cols (a->m) != a->C) { sviol ("dimensions-changed"); return 0; }
	for (i = 0; i < a->R; i++) if (!check_line (a, i, 0)) return 0;
	for (j = 0; j < a->C; j++) if (!check_line (a, j, 1)) return 0;
	if (small (a)) {
		for (i = 0; i < a->R; i++) for (j = 0; j < a->C; j++) if (!check_find (a, i, j, 1)) return 0;
	} else {
		for (i = 0; i < a->R; i++) for (w = 0; w < a->M->W; w++) {
			uint64_t x = bm_row (a->M, i)[w];
			while (x) {
				j = w * 64 + __builtin_ctzll (x); x &= x - 1;
				if (!check_find (a, i, j, 1) || !check_find (a, i, j - 1, 0) || !check_find (a, i, j + 1, 0) || !check_find (a, i - 1, j, 0) || !check_find (a, i + 1, j, 0)) return 0;
			}
		}
		for (i = 0; i < a->R; i += 1 + a->R / 61) for (j = 0; j < a->C; j += 1 + a->C / 67) if (!check_find (a, i, j, 0)) return 0;
	}
	for (i = 0; i < a->R; i += 1 + a->R / 50) {
		int want = 1;
		for (w = 0; w < a->M->W; w++) if (bm_row (a->M, i)[w]) want = 0;
		if ((of_mod2sparse_empty_row (a->m, (UINT32) i) != 0) != want) { sviol ("empty_row-wrong"); return 0; }
	}
	for (j = 0; j < a->C; j += 1 + a->C / 50) {
		int want = 1;
		for (w = 0; w < a->T->W; w++) if (bm_row (a->T, j)[w]) want = 0;
		if ((of_mod2sparse_empty_col (a->m, (UINT32) j) != 0) != want) { sviol ("empty_col-wrong"); return 0; }
	}
	return 1;
}

/* ---- list of cells of a pattern in a given order ---- */
typedef struct { int i, j; } cell_t;
static cell_t *cells_of (int pat, int R, int C, int ord, long *n)
{
	long cap = 1024, cnt = 0, q;
	cell_t *v = malloc (sizeof *v * (size_t) cap), *o;
	int i, j;
	for (i = 0; i < R; i++) for (j = 0; j < C; j++)
		if (member (pat, R, C, i, j)) { if (cnt == cap) { cap *= 2; v = realloc (v, sizeof *v * (size_t) cap); } v[cnt].i = i; v[cnt].j = j; cnt++; }
	o = malloc (sizeof *o * (size_t) (cnt ? cnt : 1));
	switch (ord) {
	case 0: memcpy (o, v, sizeof *v * (size_t) cnt); break;
	case 1: for (q = 0; q < cnt; q++) o[q] = v[cnt - 1 - q]; break;
	case 2: {	/* column-major: stable counting sort on the column */
		long *start = calloc ((size_t) C + 1, sizeof (long));
		for (q = 0; q < cnt; q++) start[v[q].j + 1]++;
		for (j = 0; j < C; j++) start[j + 1] += start[j];
		for (q = 0; q < cnt; q++) o[start[v[q].j]++] = v[q];
		free (start);
		break; }
	default: { long p = 0; for (q = 0; q < cnt; q += 2) o[p++] = v[q]; for (q = 1; q < cnt; q += 2) o[p++] = v[q]; break; }
	}
	free (v);
	*n = cnt;
	return o;
}

static void ins (mat_t *a, int i, int j)
{
	of_mod2entry *e = of_mod2sparse_insert (a->m, (UINT32) i, (UINT32) j);
	if (!e || e->row != i || e->col != j) { g_step = "insert"; sviol ("insert-returned-wrong-entry"); }
	m_set (a, i, j);
	vf_stat_add (st_trans, 1);
}
static void del (mat_t *a, int i, int j)
{
	of_mod2entry *e = of_mod2sparse_find (a->m, (UINT32) i, (UINT32) j);
	if (!e) { g_step = "delete"; sviol ("find-missed-a-member"); }
	else of_mod2sparse_delete (a->m, e);
	m_clr (a, i, j);
	vf_stat_add (st_trans, 1);
}

static void run_script_rc (int R, int C, int pat, int ord, int thorough);
static void run_script (int si, int pat, int ord, int thorough) { run_script_rc (SHAPES[si].R, SHAPES[si].C, pat, ord, thorough); }
static void run_script_rc (int R, int C, int pat, int ord, int thorough)
{
	int i, j, w;
	long n, q;
	cell_t *cl;
	mat_t A, B;
#ifdef VF_TRK
	uint64_t mark; long bad0;
#endif
	snprintf (g_desc, sizeof g_desc, "big shape=%dx%d pattern=%d(%s) order=%d(%s)", R, C, pat, PN[pat], ord, ON[ord]);
	snprintf (vf_slot (), VF_SLOT_LEN, "%s", g_desc);
	cl = cells_of (pat, R, C, ord, &n);
#ifdef VF_TRK
	mark = vf_trk_mark (); bad0 = vf_trk_badfree_count ();
#endif
	m_new (&A, R, C);
	if (!check_big (&A, "allocate")) goto out;
	for (q = 0; q < n; q++) ins (&A, cl[q].i, cl[q].j);
	if (!check_big (&A, "fill")) goto out;
	/* delete every third entry (in insertion order), check, re-insert every second of those */
	for (q = 0; q < n; q += 3) del (&A, cl[q].i, cl[q].j);
	if (!check_big (&A, "delete-a-third")) goto out;
	for (q = 0; q < n; q += 6) ins (&A, cl[q].i, cl[q].j);
	if (!check_big (&A, "reinsert-a-sixth")) goto out;

	/* copy */
	m_new (&B, R, C);
	of_mod2sparse_copy (A.m, B.m);
	memcpy (B.M->w, A.M->w, sizeof (uint64_t) * (size_t) A.M->rows * A.M->W); memcpy (B.T->w, A.T->w, sizeof (uint64_t) * (size_t) A.T->rows * A.T->W);
	vf_stat_add (st_trans, 1);
	if (!check_big (&B, "copy")) { m_free (&B); goto out; }
	if (!check_big (&A, "copy(source)")) { m_free (&B); goto out; }
	/* copy over a non-empty destination of the same size */
	ins (&B, R - 1, C - 1); ins (&B, 0, C / 2);
	of_mod2sparse_copy (A.m, B.m);
	memcpy (B.M->w, A.M->w, sizeof (uint64_t) * (size_t) A.M->rows * A.M->W); memcpy (B.T->w, A.T->w, sizeof (uint64_t) * (size_t) A.T->rows * A.T->W);
	if (!check_big (&B, "copy-over-used")) { m_free (&B); goto out; }
	m_free (&B);

	/* copyrows / copyrows_opt: reversed rows, and a map with repetitions, into R x (C+1) */
	{
		UINT32 *rows = malloc (sizeof (UINT32) * (size_t) R);
		int variant;
		for (variant = 0; variant < 4; variant++) {
			m_new (&B, R, C + 1);
			for (i = 0; i < R; i++) rows[i] = (UINT32) ((variant & 1) ? (i * 7 + 3) % R : R - 1 - i);
			if (variant & 2) of_mod2sparse_copyrows_opt (A.m, B.m, rows, NULL); else { ins (&B, R / 2, C); of_mod2sparse_copyrows (A.m, B.m, rows); m_zero (&B); }
			for (i = 0; i < R; i++) for (w = 0; w < A.M->W; w++) { uint64_t x = bm_row (A.M, (int) rows[i])[w]; while (x) { j = w * 64 + __builtin_ctzll (x); x &= x - 1; m_set (&B, i, j); } }
			vf_stat_add (st_trans, 1);
			if (!check_big (&B, (variant & 2) ? "copyrows_opt" : "copyrows")) { m_free (&B); free (rows); goto out; }
			m_free (&B);
		}
		free (rows);
	}
	/* copycols / copycols_opt into (R+1) x C */
	{
		UINT32 *cols = malloc (sizeof (UINT32) * (size_t) C);
		int variant;
		for (variant = 0; variant < 4; variant++) {
			m_new (&B, R + 1, C);
			for (j = 0; j < C; j++) cols[j] = (UINT32) ((variant & 1) ? (j * 5 + 2) % C : C - 1 - j);
			if (variant & 2) of_mod2sparse_copycols_opt (A.m, B.m, cols); else { ins (&B, R, C / 2); of_mod2sparse_copycols (A.m, B.m, cols); m_zero (&B); }
			for (j = 0; j < C; j++) for (w = 0; w < A.T->W; w++) { uint64_t x = bm_row (A.T, (int) cols[j])[w]; while (x) { i = w * 64 + __builtin_ctzll (x); x &= x - 1; m_set (&B, i, j); } }
			vf_stat_add (st_trans, 1);
			if (!check_big (&B, (variant & 2) ? "copycols_opt" : "copycols")) { m_free (&B); free (cols); goto out; }
			m_free (&B);
		}
		free (cols);
	}
	/* copy_filled_matrix into a larger matrix through order-preserving maps with gaps */
	{
		UINT32 *ir = malloc (sizeof (UINT32) * (size_t) R), *ic = malloc (sizeof (UINT32) * (size_t) C);
		m_new (&B, R + 2, C + 2);
		for (i = 0; i < R; i++) ir[i] = (UINT32) (i + (i >= R / 2 ? 2 : 0));
		for (j = 0; j < C; j++) ic[j] = (UINT32) (j + (j >= C / 3 ? 1 : 0) + (j >= C - 1 ? 1 : 0));
		ins (&B, R / 2, C / 3);	/* in a gap: must survive */
		of_mod2sparse_copy_filled_matrix (A.m, B.m, ir, ic);
		for (i = 0; i < R; i++) for (w = 0; w < A.M->W; w++) { uint64_t x = bm_row (A.M, i)[w]; while (x) { j = w * 64 + __builtin_ctzll (x); x &= x - 1; m_set (&B, (int) ir[i], (int) ic[j]); } }
		vf_stat_add (st_trans, 1);
		free (ir); free (ic);
		if (!check_big (&B, "copy_filled_matrix")) { m_free (&B); goto out; }
		m_free (&B);
	}
	/* sparse -> dense -> sparse */
	if ((long) R * ((C + 31) / 32) <= 4000000) {
		of_mod2dense *dm = of_mod2dense_allocate ((UINT32) R, (UINT32) C);
		int bad = 0;
		of_mod2sparse_to_dense (A.m, dm);
		g_step = "sparse_to_dense";
		for (i = 0; i < R && !bad; i += 1 + R / 300) for (j = 0; j < C; j += 1 + C / 300) if ((of_mod2dense_get (dm, (UINT32) i, (UINT32) j) != 0) != (bm_get (A.M, i, j) != 0)) { sviol ("sparse_to_dense-wrong"); bad = 1; break; }
		for (q = 0; q < n && !bad; q++) if ((of_mod2dense_get (dm, (UINT32) cl[q].i, (UINT32) cl[q].j) != 0) != (bm_get (A.M, cl[q].i, cl[q].j) != 0)) { sviol ("sparse_to_dense-wrong"); bad = 1; }
		if (!bad) {	/* the same dense matrix reused for another, thinner sparse matrix: nothing of A may survive in it */
			mat_t E;
			m_new (&E, R, C);
			for (q = 0; q < n; q += 7) ins (&E, cl[q].i, cl[q].j);
			ins (&E, R - 1, C - 1);
			of_mod2sparse_to_dense (E.m, dm);
			g_step = "sparse_to_dense(reused-destination)";
			for (q = 0; q < n && !bad; q++) if ((of_mod2dense_get (dm, (UINT32) cl[q].i, (UINT32) cl[q].j) != 0) != (bm_get (E.M, cl[q].i, cl[q].j) != 0)) { sviol ("sparse_to_dense-wrong"); bad = 1; }
			for (i = 0; i < R && !bad; i += 1 + R / 300) for (j = 0; j < C; j += 1 + C / 300) if ((of_mod2dense_get (dm, (UINT32) i, (UINT32) j) != 0) != (bm_get (E.M, i, j) != 0)) { sviol ("sparse_to_dense-wrong"); bad = 1; break; }
			if (!bad) {	/* and back into a used sparse matrix */
				mat_t F;
				m_new (&F, R, C);
				for (q = 1; q < n; q += 5) ins (&F, cl[q].i, cl[q].j);
				of_mod2dense_to_sparse (dm, F.m);
				memcpy (F.M->w, E.M->w, sizeof (uint64_t) * (size_t) E.M->rows * E.M->W); memcpy (F.T->w, E.T->w, sizeof (uint64_t) * (size_t) E.T->rows * E.T->W);
				if (!check_big (&F, "dense_to_sparse(reused-matrices)")) bad = 1;
				m_free (&F);
			}
			m_free (&E);
			vf_stat_add (st_trans, 2);
			if (!bad) of_mod2sparse_to_dense (A.m, dm);
		}
		of_mod2dense_to_sparse (dm, A.m);
		of_mod2dense_free (dm);
		vf_stat_add (st_trans, 2);
		if (bad || !check_big (&A, "dense_to_sparse")) goto out;
	}
	/* churn: insert/delete cycles that keep the population stable and recycle freed entries */
	{
		int cycles = thorough ? 6000 : 1500, t;
		for (t = 0; t < cycles; t++) {
			int i1 = (int) (hsh ((unsigned) t, 11) % (unsigned) R), j1 = (int) (hsh ((unsigned) t, 12) % (unsigned) C);
			int i2 = (int) (hsh ((unsigned) (t / 2), 11) % (unsigned) R), j2 = (int) (hsh ((unsigned) (t / 2), 12) % (unsigned) C);
			if (!bm_get (A.M, i1, j1)) ins (&A, i1, j1);
			if ((t & 1) && bm_get (A.M, i2, j2)) del (&A, i2, j2);
			if (n && (t % 3) == 0) { q = (long) (hsh ((unsigned) t, 13) % (unsigned long) n); if (bm_get (A.M, cl[q].i, cl[q].j)) del (&A, cl[q].i, cl[q].j); else ins (&A, cl[q].i, cl[q].j); }
			if ((t % 500) == 499 && !check_big (&A, "churn")) goto out;
		}
		if (!check_big (&A, "churn")) goto out;
	}
	/* clear, refill in the opposite order */
	of_mod2sparse_clear (A.m); m_zero (&A);
	vf_stat_add (st_trans, 1);
	if (!check_big (&A, "clear")) goto out;
	for (q = n - 1; q >= 0; q--) ins (&A, cl[q].i, cl[q].j);
	if (!check_big (&A, "refill-after-clear")) goto out;
	of_mod2sparse_clear (A.m); m_zero (&A);
	for (q = 0; q < n; q += 2) ins (&A, cl[q].i, cl[q].j);
	if (!check_big (&A, "second-clear-and-refill")) goto out;
out:
	m_free (&A);
#ifdef VF_TRK
	g_step = "free";
	{
		/* the model's own blocks (bitmats, cell list) were allocated in the window too: count what is left after freeing them */
		free (cl); cl = NULL;
		if (vf_trk_live_since (mark, NULL) != 0) sviol ("leak-after-free");
		if (vf_trk_badfree_count () != bad0) sviol ("free-of-non-live-block");
	}
#endif
	free (cl);
	vf_stat_add (st_states, 1);
}

static int g_thorough;
static void item (long it, void *arg)
{
	int si = (int) (it / (NPAT * NORD)), pat = (int) (it / NORD) % NPAT, ord = (int) (it % NORD);
	(void) arg;
	vf_slot_set_prop ("C17");
	/* quick tier: every shape x pattern with two orders chosen by rotation, all four on the shapes below 70000 cells */
	if (!g_thorough && (long) SHAPES[si].R * SHAPES[si].C > 70000 && ((ord + pat + si) & 1)) return;
	run_script (si, pat, ord, g_thorough);
}

/* contiguous sweep: EVERY dimension d in 5..220 (thorough ..500) as a column count (with a row count derived from d) and, every
 * third d, as a row count; fill pattern and insertion order rotating with d */
static void item_sweep (long it, void *arg)
{
	int d = 5 + (int) it;
	(void) arg;
	vf_slot_set_prop ("C17");
	run_script_rc (3 + (d * 7) % 29, d, d % NPAT, d % NORD, g_thorough);
	if (d % 3 == 0) run_script_rc (d, 3 + (d * 5) % 31, (d + 1) % NPAT, (d + 2) % NORD, g_thorough);
}

static void item_replay (long it, void *arg)
{
	int R, C, pat, ord, si;
	(void) it; (void) arg;
	vf_slot_set_prop ("C17");
	if (sscanf (vf_replay_case (), "big shape=%dx%d pattern=%d(%*[^)]) order=%d", &R, &C, &pat, &ord) != 4) return;
	(void) si; run_script_rc (R, C, pat, ord, g_thorough);
}

int main (int argc, char **argv)
{
	vf_init (argc, argv);
	g_thorough = vf_tier_thorough ();
	st_states = vf_stat_id ("states"); st_trans = vf_stat_id ("transitions"); st_exec = vf_stat_id ("executions"); st_dn = vf_stat_id ("distinct_nontrivial"); st_checks = vf_stat_id ("full_structure_checks");
	if (vf_replay_case ()) { vf_pool_run (1, item_replay, NULL, 0); vf_finish (); return 0; }
	vf_pool_run ((long) NSHAPES * NPAT * NORD, item, NULL, 0);
	vf_pool_run (g_thorough ? 496 : 216, item_sweep, NULL, 0);
	vf_stat_add (st_exec, vf_stat_get (st_states));
	vf_stat_add (st_dn, vf_stat_get (st_states));
	vf_outcome ("big_scripts_run", vf_stat_get (st_states));
	vf_outcome ("big_structure_checks", vf_stat_get (st_checks));
	vf_sample ("shape 1x70000, pattern staircase+3percol, order reverse: 23 structure checks, every traversal equals the set model");
	vf_finish ();
	return 0;
}
