/* h_indep.c — C12: sessions are independent of each other.
 * A catalogue of session scripts (4-7 API calls each, all codecs, encoders, decoders, a decoder that ends
 * in ML decoding and consumes rand(), a rejected configuration, different verbosity values). For every
 * unordered pair of scripts (a script with itself included) ALL interleavings of their call sequences are
 * executed; for every triple all interleavings with at most S context switches. rand() is a global-counter
 * generator, so an interleaving really changes the answers a session sees. Oracle: the observation trace of
 * every session (status of every call, completion flags, control-parameter answers, bytes of every built and
 * every decoded symbol) equals the trace of the same script run alone in a pristine forked process. */
#include "vf.h"
#include "ref.h"
#include "lib_common/of_openfec_api.h"
#include "lib_stable/reed-solomon_gf_2_8/of_reed-solomon_gf_2_8_includes.h"
#include "lib_stable/reed-solomon_gf_2_m/of_reed-solomon_gf_2_m_includes.h"
#include "lib_stable/ldpc_staircase/of_ldpc_includes.h"
#include "lib_stable/2d_parity_matrix/of_2d_parity_includes.h"
#include <sys/mman.h>

static unsigned g_randctr;
int rand (void) { g_randctr = g_randctr * 1103515245u + 12345u; return (int) ((g_randctr >> 16) & 0x7fff); }

enum { S_CREATE, S_SET, S_BUILD, S_DWS, S_SAS, S_FIN, S_QUERY, S_CTRL, S_RELEASE, S_CASCADE, S_BUILDALL, S_SETCB };	/* S_CASCADE: one atomic step submitting all sources but one in peeling-cascade order; S_BUILDALL: all repair symbols */
typedef struct { int kind; uint64_t a; } step_t;
#define MAXSTEP 9
#define MAXSCR 128
typedef struct {
	const char *name;
	int codec, role, k, r, len, m, N1, seed, verbosity;
	int nsteps; step_t st[MAXSTEP];
} script_t;

static script_t SCR[MAXSCR]; static int NSCR, NCORE;	/* the first NCORE scripts are the hand-written ones (used for triples and quadruples too) */
static uint64_t (*BASE)[MAXSTEP];	/* baseline per-step trace hashes, shared memory */
static int st_states, st_trans, st_exec, st_dn, st_pairs, st_triples, st_quads;

/* a running instance of a script */
typedef struct {
	const script_t *s; int pc; of_session_t *ses;
	unsigned char **sym; void **tab; void **src; unsigned char **lib_built;
	int *order; int norder;	/* S_CASCADE submission order (from the reference matrix) */
	int key_repair;		/* ESI of the repair symbol of the first equation of the missing source */
	uint64_t trace[MAXSTEP];
	uint64_t cbhash; int shared_sym;	/* callbacks seen since the last step (folded into the next step's observation) */
	unsigned char **cbbuf;		/* buffers handed out by this instance's source callback */
} inst_t;


/* decoded-symbol callbacks of an instance: the context is the instance, every invocation is folded into the trace */
static void *indep_src_cb (void *ctx, UINT32 size, UINT32 esi)
{
	inst_t *x = ctx;
	x->cbhash = vf_mix64 (x->cbhash ^ ((uint64_t) size << 32 | esi) ^ 0x5151u);
	if ((int) esi >= x->s->k) return NULL;
	if (!x->cbbuf[esi]) x->cbbuf[esi] = calloc (1, (size_t) x->s->len + 1);
	return x->cbbuf[esi];
}
static void *indep_rep_cb (void *ctx, UINT32 size, UINT32 esi)
{
	inst_t *x = ctx;
	x->cbhash = vf_mix64 (x->cbhash ^ ((uint64_t) size << 32 | esi) ^ 0xA7A7u);
	return NULL;
}

static void gen_codeword (const script_t *s, unsigned char **sym)
{
	int i, j, n = s->k + s->r;
	for (i = 0; i < s->k; i++) for (j = 0; j < s->len; j++) sym[i][j] = (unsigned char) (vf_mix64 ((uint64_t) (s - SCR) * 1000003u + (uint64_t) i * 257 + (uint64_t) j) >> 17);
	if (s->codec == 3 && (s->N1 > s->r || s->N1 < 3 || s->seed < 1)) return;	/* configuration that must be rejected: no codeword needed */
	if (s->codec == 3) {
		bitmat *H = rfc5170_H (s->k, n, s->N1, (uint64_t) s->seed, NULL);
		int row;
		for (row = 0; row < s->r; row++) {
			unsigned char *p = sym[s->k + row];
			memset (p, 0, (size_t) s->len);
			if (row > 0) memcpy (p, sym[s->k + row - 1], (size_t) s->len);
			for (i = 0; i < s->k; i++) if (bm_get (H, row, i)) for (j = 0; j < s->len; j++) p[j] ^= sym[i][j];
		}
		bm_free (H);
	} else if (s->codec == 1 || s->codec == 2) {
		int mm = s->codec == 1 ? 8 : s->m;
		unsigned char *G = malloc ((size_t) n * s->k);
		rsr_generator (mm, s->k, n, G);
		for (i = s->k; i < n; i++) rsr_encode_symbol (mm, s->k, G + (size_t) i * s->k, sym, sym[i], (size_t) s->len);
		free (G);
	} else for (i = s->k; i < n; i++) memset (sym[i], 0, (size_t) s->len);	/* 2D: encoder scripts only */
}

static void inst_init (inst_t *x, const script_t *s)
{
	int i, n = s->k + s->r;
	memset (x, 0, sizeof *x);
	x->s = s;
	x->sym = calloc ((size_t) n, sizeof (void *)); x->tab = calloc ((size_t) n, sizeof (void *)); x->src = calloc ((size_t) s->k, sizeof (void *)); x->lib_built = calloc ((size_t) n, sizeof (void *));
	x->cbbuf = calloc ((size_t) s->k + 1, sizeof (void *));
	for (i = 0; i < n; i++) x->sym[i] = calloc (1, (size_t) s->len);
	gen_codeword (s, x->sym);
	if (s->codec == 3 && s->N1 <= s->r && s->N1 >= 3 && s->seed >= 1) {
		int st, miss = -1, pass, e, want = 0;
		for (st = 0; st < s->nsteps; st++) if (s->st[st].kind == S_CASCADE) { want = 1; miss = (int) (INT32) s->st[st].a; }
		if (want) {
			bitmat *H = rfc5170_H (s->k, n, s->N1, (uint64_t) s->seed, NULL);
			int best = -1, bestrow = -1, j;
			for (e = 0; e < s->k; e++) { for (j = 0; j < s->r && !bm_get (H, j, e); j++) ; if (j > bestrow) { bestrow = j; best = e; } }
			if (miss < 0) miss = best;	/* the source that appears latest in the staircase: the longest cascade */
			for (j = 0; j < s->r && !bm_get (H, j, miss); j++) ;
			x->key_repair = s->k + j;
			x->order = malloc (sizeof (int) * (size_t) s->k);
			for (pass = 0; pass < 2; pass++) for (e = 0; e < s->k; e++) if (e != miss && bm_get (H, 0, e) == pass) x->order[x->norder++] = e;
			bm_free (H);
		}
	}
}
static void inst_free (inst_t *x)
{
	int i, n = x->s->k + x->s->r;
	if (x->ses) of_release_codec_instance (x->ses);
	for (i = 0; i < x->s->k; i++) { int own = 0, j; for (j = 0; j < n; j++) if (x->src[i] == x->sym[j]) own = 1; if (x->src[i] == x->cbbuf[i]) own = 1; if (x->src[i] && !own) free (x->src[i]); }
	for (i = 0; i < n; i++) { if (!x->shared_sym) free (x->sym[i]); free (x->lib_built[i]); }
	for (i = 0; i < x->s->k; i++) free (x->cbbuf[i]);
	if (!x->shared_sym) free (x->sym);
	free (x->cbbuf); free (x->tab); free (x->src); free (x->lib_built); free (x->order);
}

/* execute the next call of the instance; returns the observation hash of this step */
static uint64_t inst_step (inst_t *x)
{
	const script_t *s = x->s;
	const step_t *t = &s->st[x->pc];
	vf_h128 h;
	int i, n = s->k + s->r;
	of_status_t st = OF_STATUS_OK;
	vf_h_init (&h);
	vf_h_u64 (&h, (uint64_t) t->kind);
	switch (t->kind) {
	case S_CREATE: {
		of_codec_id_t id = s->codec == 1 ? OF_CODEC_REED_SOLOMON_GF_2_8_STABLE : s->codec == 2 ? OF_CODEC_REED_SOLOMON_GF_2_M_STABLE : s->codec == 5 ? OF_CODEC_2D_PARITY_MATRIX_STABLE : OF_CODEC_LDPC_STAIRCASE_STABLE;
		st = of_create_codec_instance (&x->ses, id, (of_codec_type_t) s->role, (UINT32) s->verbosity);
		break; }
	case S_SET:
		if (s->codec == 1) { of_rs_parameters_t p; memset (&p, 0, sizeof p); p.nb_source_symbols = (UINT32) s->k; p.nb_repair_symbols = (UINT32) s->r; p.encoding_symbol_length = (UINT32) s->len; st = of_set_fec_parameters (x->ses, (of_parameters_t *) &p); }
		else if (s->codec == 2) { of_rs_2_m_parameters_t p; memset (&p, 0, sizeof p); p.nb_source_symbols = (UINT32) s->k; p.nb_repair_symbols = (UINT32) s->r; p.encoding_symbol_length = (UINT32) s->len; p.m = (UINT16) s->m; st = of_set_fec_parameters (x->ses, (of_parameters_t *) &p); }
		else if (s->codec == 5) { of_2d_parity_parameters_t p; memset (&p, 0, sizeof p); p.nb_source_symbols = (UINT32) s->k; p.nb_repair_symbols = (UINT32) s->r; p.encoding_symbol_length = (UINT32) s->len; st = of_set_fec_parameters (x->ses, (of_parameters_t *) &p); }
		else { of_ldpc_parameters_t p; memset (&p, 0, sizeof p); p.nb_source_symbols = (UINT32) s->k; p.nb_repair_symbols = (UINT32) s->r; p.encoding_symbol_length = (UINT32) s->len; p.prng_seed = s->seed; p.N1 = (UINT8) s->N1; st = of_set_fec_parameters (x->ses, (of_parameters_t *) &p); }
		break;
	case S_BUILD: {
		int esi = (int) t->a;
		for (i = 0; i < n; i++) x->tab[i] = i < s->k ? x->sym[i] : x->lib_built[i];
		if (!x->lib_built[esi]) { x->lib_built[esi] = calloc (1, (size_t) s->len); x->tab[esi] = x->lib_built[esi]; }
		st = of_build_repair_symbol (x->ses, x->tab, (UINT32) esi);
		if (st == OF_STATUS_OK) vf_h_bytes (&h, x->tab[esi], (size_t) s->len);
		break; }
	case S_DWS: { UINT32 esi = t->a == 0xFFFFFFFFu ? (UINT32) x->key_repair : (UINT32) t->a; st = of_decode_with_new_symbol (x->ses, x->sym[esi], esi); break; }
	case S_SAS: for (i = 0; i < n; i++) x->tab[i] = ((t->a >> i) & 1) ? x->sym[i] : NULL; st = of_set_available_symbols (x->ses, x->tab); break;
	case S_FIN: st = of_finish_decoding (x->ses); break;
	case S_QUERY: {
		bool c = of_is_decoding_complete (x->ses);
		vf_h_u64 (&h, c ? 1 : 0);
		for (i = 0; i < s->k; i++) x->src[i] = NULL;
		st = of_get_source_symbols_tab (x->ses, x->src);
		if (st == OF_STATUS_OK) for (i = 0; i < s->k; i++) { vf_h_u64 (&h, !x->src[i] ? 0 : x->src[i] == x->sym[i] ? 1 : x->src[i] == x->cbbuf[i] ? 2 : 3); if (x->src[i]) vf_h_bytes (&h, x->src[i], (size_t) s->len); }
		break; }
	case S_CTRL: {
		UINT32 v = 0; bool b = false;
		st = of_get_control_parameter (x->ses, OF_CTRL_GET_MAX_K, &v, sizeof v); vf_h_u64 (&h, v); vf_h_u64 (&h, (uint64_t) st);
		st = of_get_control_parameter (x->ses, OF_CTRL_GET_MAX_N, &v, sizeof v); vf_h_u64 (&h, v); vf_h_u64 (&h, (uint64_t) st);
		if (s->codec == 3) { st = of_get_control_parameter (x->ses, OF_CRTL_LDPC_STAIRCASE_IS_LAST_SYMBOL_NULL, &b, sizeof b); vf_h_u64 (&h, b ? 1 : 0); }
		break; }
	case S_SETCB: st = of_set_callback_functions (x->ses, indep_src_cb, t->a ? indep_rep_cb : NULL, x); break;
	case S_RELEASE: st = of_release_codec_instance (x->ses); x->ses = NULL; break;
	case S_CASCADE: for (i = 0; i < x->norder; i++) { st = of_decode_with_new_symbol (x->ses, x->sym[x->order[i]], (UINT32) x->order[i]); vf_h_u64 (&h, (uint64_t) st); } break;
	case S_BUILDALL:
		for (i = 0; i < n; i++) x->tab[i] = i < s->k ? x->sym[i] : x->lib_built[i];
		for (i = s->k; i < n; i++) { if (!x->lib_built[i]) { x->lib_built[i] = calloc (1, (size_t) s->len); x->tab[i] = x->lib_built[i]; } st = of_build_repair_symbol (x->ses, x->tab, (UINT32) i); vf_h_u64 (&h, (uint64_t) st); if (st == OF_STATUS_OK) vf_h_bytes (&h, x->tab[i], (size_t) s->len); }
		break;
	}
	vf_h_u64 (&h, (uint64_t) st);
	vf_h_u64 (&h, x->cbhash); x->cbhash = 0;	/* callbacks this call triggered */
	x->trace[x->pc] = h.a ^ h.b;
	x->pc++;
	return h.a ^ h.b;
}

/* ------------------------------------------------------------------ catalogue */
static script_t *new_script (const char *name, int codec, int role, int k, int r, int len, int m, int N1, int seed, int verb)
{
	script_t *s = &SCR[NSCR++];
	memset (s, 0, sizeof *s);
	s->name = name; s->codec = codec; s->role = role; s->k = k; s->r = r; s->len = len; s->m = m; s->N1 = N1; s->seed = seed; s->verbosity = verb;
	return s;
}
static void add (script_t *s, int kind, uint64_t a) { s->st[s->nsteps].kind = kind; s->st[s->nsteps].a = a; s->nsteps++; }

/* a received set for which peeling fails but the system has full rank (so FINISH must run Gaussian elimination) */
static uint64_t ml_mask (int k, int n, int N1, int seed)
{
	bitmat *H = rfc5170_H (k, n, N1, (uint64_t) seed, NULL);
	uint64_t S, best = 0;
	for (S = 0; S < ((uint64_t) 1 << n); S++) {
		uint64_t known = S, k2 = S;
		int nu, rk, i, all = 1;
		gf2_peel (H, &k2);
		for (i = 0; i < k; i++) if (!((k2 >> i) & 1)) all = 0;
		if (all) continue;
		rk = gf2_rank_unknown (H, &known, &nu);
		if (rk == nu) { best = S; break; }
	}
	bm_free (H);
	return best;
}

static void build_catalogue (void)
{
	script_t *s;
	s = new_script ("rs28-encoder", 1, OF_ENCODER, 3, 2, 8, 8, 0, 0, 0); add (s, S_CREATE, 0); add (s, S_SET, 0); add (s, S_BUILD, 3); add (s, S_BUILD, 4); add (s, S_RELEASE, 0);
	s = new_script ("rs28-decoder-matrix", 1, OF_DECODER, 3, 2, 8, 8, 0, 0, 0); add (s, S_CREATE, 0); add (s, S_SET, 0); add (s, S_DWS, 1); add (s, S_DWS, 3); add (s, S_DWS, 4); add (s, S_QUERY, 0); add (s, S_RELEASE, 0);
	s = new_script ("rs2m4-decoder-sas", 2, OF_DECODER, 4, 3, 6, 4, 0, 0, 0); add (s, S_CREATE, 0); add (s, S_SET, 0); add (s, S_SAS, 0x6C); add (s, S_FIN, 0); add (s, S_QUERY, 0); add (s, S_RELEASE, 0);
	s = new_script ("rs2m8-encoder", 2, OF_ENCODER, 4, 3, 7, 8, 0, 0, 0); add (s, S_CREATE, 0); add (s, S_SET, 0); add (s, S_BUILD, 4); add (s, S_BUILD, 6); add (s, S_CTRL, 0); add (s, S_RELEASE, 0);
	s = new_script ("ldpc-encoder", 3, OF_ENCODER, 6, 4, 9, 0, 3, 5, 0); add (s, S_CREATE, 0); add (s, S_SET, 0); add (s, S_BUILD, 6); add (s, S_BUILD, 7); add (s, S_BUILD, 8); add (s, S_BUILD, 9); add (s, S_CTRL, 0); add (s, S_RELEASE, 0);
	s = new_script ("ldpc-decoder-ml", 3, OF_DECODER, 6, 5, 5, 0, 3, 9, 0); add (s, S_CREATE, 0); add (s, S_SET, 0); add (s, S_SAS, ml_mask (6, 11, 3, 9)); add (s, S_FIN, 0); add (s, S_QUERY, 0); add (s, S_RELEASE, 0);
	s = new_script ("ldpc-decoder-evenN1-dws", 3, OF_DECODER, 5, 4, 4, 0, 4, 2, 0); add (s, S_CREATE, 0); add (s, S_SET, 0); add (s, S_CTRL, 0); add (s, S_DWS, 6); add (s, S_DWS, 0); add (s, S_DWS, 7); add (s, S_QUERY, 0); add (s, S_RELEASE, 0);
	s = new_script ("ldpc-rejected-N1", 3, OF_DECODER, 5, 4, 4, 0, 9, 77, 0); add (s, S_CREATE, 0); add (s, S_SET, 0); add (s, S_RELEASE, 0);
	s = new_script ("2d-encoder", 5, OF_ENCODER, 4, 4, 6, 0, 0, 0, 0); add (s, S_CREATE, 0); add (s, S_SET, 0); add (s, S_BUILD, 4); add (s, S_BUILD, 5); add (s, S_BUILD, 6); add (s, S_BUILD, 7); add (s, S_RELEASE, 0);
	s = new_script ("rs28-encoder-verbose", 1, OF_ENCODER, 2, 2, 5, 8, 0, 0, 2); add (s, S_CREATE, 0); add (s, S_SET, 0); add (s, S_BUILD, 2); add (s, S_BUILD, 3); add (s, S_RELEASE, 0);
	s = new_script ("ldpc-decoder-same-seed-as-encoder", 3, OF_DECODER, 6, 4, 9, 0, 3, 5, 1); add (s, S_CREATE, 0); add (s, S_SET, 0); add (s, S_DWS, 9); add (s, S_DWS, 8); add (s, S_DWS, 7); add (s, S_FIN, 0); add (s, S_QUERY, 0); add (s, S_RELEASE, 0);
	s = new_script ("ldpc-encoder-maxseed", 3, OF_ENCODER, 5, 4, 6, 0, 3, 2147483646, 0); add (s, S_CREATE, 0); add (s, S_SET, 0); add (s, S_BUILD, 5); add (s, S_BUILD, 6); add (s, S_BUILD, 7); add (s, S_RELEASE, 0);
	s = new_script ("rs2m4-encoder-same-kr-as-m8", 2, OF_ENCODER, 4, 3, 7, 4, 0, 0, 0); add (s, S_CREATE, 0); add (s, S_SET, 0); add (s, S_BUILD, 4); add (s, S_BUILD, 6); add (s, S_RELEASE, 0);
	{	/* a streaming decoder (no FINISH) whose query shows symbols rebuilt by the iterative decoder: 4 received symbols chosen
		 * (from the reference matrix) so that peeling rebuilds as many further source symbols as possible */
		int k = 4, r = 5, n = 9, N1 = 3, seed = 11, a, b, c, d, best[4] = {0, 1, 2, 3}, bestgain = -1;
		bitmat *H = rfc5170_H (k, n, N1, (uint64_t) seed, NULL);
		for (a = 0; a < n; a++) for (b = a + 1; b < n; b++) for (c = b + 1; c < n; c++) for (d = c + 1; d < n; d++) {
			uint64_t kn = ((uint64_t) 1 << a) | ((uint64_t) 1 << b) | ((uint64_t) 1 << c) | ((uint64_t) 1 << d), k0 = kn;
			int gain = 0, e;
			gf2_peel (H, &kn);
			for (e = 0; e < k; e++) if (((kn >> e) & 1) && !((k0 >> e) & 1)) gain++;
			if (gain > bestgain) { bestgain = gain; best[0] = a; best[1] = b; best[2] = c; best[3] = d; }
		}
		bm_free (H);
		s = new_script ("ldpc-decoder-streaming", 3, OF_DECODER, k, r, 6, 0, N1, seed, 0); add (s, S_CREATE, 0); add (s, S_SET, 0);
		add (s, S_DWS, (uint64_t) best[3]); add (s, S_DWS, (uint64_t) best[1]); add (s, S_DWS, (uint64_t) best[2]); add (s, S_DWS, (uint64_t) best[0]); add (s, S_QUERY, 0); add (s, S_RELEASE, 0);
	}
	/* a long staircase decoded in one peeling cascade (330 nested rebuilt symbols), and a code whose equations hold 300+ symbols */
	s = new_script ("ldpc-decoder-long-cascade", 3, OF_DECODER, 330, 330, 4, 0, 3, 6, 0); add (s, S_CREATE, 0); add (s, S_SET, 0); add (s, S_CASCADE, 0xFFFFFFFFu); add (s, S_DWS, 0xFFFFFFFFu); add (s, S_QUERY, 0); add (s, S_RELEASE, 0);
	s = new_script ("ldpc-encoder-wide-rows", 3, OF_ENCODER, 300, 3, 4, 0, 3, 4, 0); add (s, S_CREATE, 0); add (s, S_SET, 0); add (s, S_BUILDALL, 0); add (s, S_RELEASE, 0);
	s = new_script ("ldpc-rejected-seed", 3, OF_ENCODER, 5, 4, 4, 0, 3, 0, 0); add (s, S_CREATE, 0); add (s, S_SET, 0); add (s, S_RELEASE, 0);
	/* decoders with callbacks (source + repair callback, source only): per-session callback state */
	s = new_script ("rs28-decoder-callbacks", 1, OF_DECODER, 2, 1, 8, 8, 0, 0, 0); add (s, S_CREATE, 0); add (s, S_SET, 0); add (s, S_SETCB, 1); add (s, S_DWS, 1); add (s, S_DWS, 2); add (s, S_QUERY, 0); add (s, S_RELEASE, 0);
	s = new_script ("rs2m8-decoder-callbacks", 2, OF_DECODER, 3, 2, 8, 8, 0, 0, 0); add (s, S_CREATE, 0); add (s, S_SET, 0); add (s, S_SETCB, 1); add (s, S_DWS, 4); add (s, S_DWS, 2); add (s, S_DWS, 3); add (s, S_QUERY, 0); add (s, S_RELEASE, 0);
	s = new_script ("ldpc-decoder-callbacks", 3, OF_DECODER, 2, 3, 8, 0, 3, 1, 0); add (s, S_CREATE, 0); add (s, S_SET, 0); add (s, S_SETCB, 1); add (s, S_DWS, 0); add (s, S_DWS, 2); add (s, S_FIN, 0); add (s, S_QUERY, 0); add (s, S_RELEASE, 0);
	s = new_script ("ldpc-decoder-source-callback-only", 3, OF_DECODER, 2, 3, 8, 0, 3, 1, 0); add (s, S_CREATE, 0); add (s, S_SET, 0); add (s, S_SETCB, 0); add (s, S_DWS, 3); add (s, S_DWS, 4); add (s, S_DWS, 2); add (s, S_QUERY, 0); add (s, S_RELEASE, 0);
	/* the "last repair symbol is null" answer asked late, on codes where it is false (one extra entry) and true; the same
	 * even-N1 decoder with longer symbols (its self-injected null symbol) */
	s = new_script ("ldpc-encoder-evenN1-extra-entry", 3, OF_ENCODER, 1, 5, 6, 0, 4, 1, 0); add (s, S_CREATE, 0); add (s, S_SET, 0); add (s, S_BUILDALL, 0); add (s, S_CTRL, 0); add (s, S_RELEASE, 0);
	s = new_script ("ldpc-encoder-evenN1-null-last", 3, OF_ENCODER, 4, 4, 6, 0, 4, 1, 0); add (s, S_CREATE, 0); add (s, S_SET, 0); add (s, S_BUILDALL, 0); add (s, S_CTRL, 0); add (s, S_RELEASE, 0);
	{	/* a source symbol rebuilt through the LAST equation, i.e. with the null symbol the decoder injects for itself:
		 * the same code with 4-byte and with 40-byte symbols */
		int k = 5, r = 4, N1 = 4, seed = 2, e, miss = -1, v;
		bitmat *H = rfc5170_H (k, k + r, N1, (uint64_t) seed, NULL);
		for (e = 0; e < k; e++) if (bm_get (H, r - 1, e)) miss = e;
		bm_free (H);
		for (v = 0; v < 2 && miss >= 0; v++) {
			s = new_script (v ? "ldpc-decoder-evenN1-last-equation-long-symbols" : "ldpc-decoder-evenN1-last-equation", 3, OF_DECODER, k, r, v ? 40 : 4, 0, N1, seed, 0);
			add (s, S_CREATE, 0); add (s, S_SET, 0);
			for (e = 0; e < k; e++) if (e != miss) add (s, S_DWS, (uint64_t) e);
			add (s, S_DWS, (uint64_t) (k + r - 2)); add (s, S_QUERY, 0); add (s, S_RELEASE, 0);
		}
	}
	NCORE = NSCR;
	{	/* systematic families (pairs only): for each Reed-Solomon codec, 4 shapes sharing k or n-k, as encoder, as decoder fed
		 * the highest ESIs, and as one session that encodes and then decodes */
		static const int shp[4][2] = {{2, 1}, {2, 2}, {3, 2}, {3, 4}};
		static char names[48][40];
		int ci, pi, ro, q, ni = 0;
		for (ci = 0; ci < 3; ci++) for (pi = 0; pi < 4; pi++) for (ro = 0; ro < 3; ro++) {
			int codec = ci == 0 ? 1 : 2, m = ci == 2 ? 4 : 8, k = shp[pi][0], r = shp[pi][1], n = k + r;
			snprintf (names[ni], sizeof names[ni], "%s-%s-k%d-n%d", ci == 0 ? "rs28" : ci == 1 ? "rs2m8" : "rs2m4", ro == 0 ? "enc" : ro == 1 ? "dec" : "encdec", k, n);
			s = new_script (names[ni], codec, ro == 0 ? OF_ENCODER : ro == 1 ? OF_DECODER : OF_ENCODER_AND_DECODER, k, r, 6, m, 0, 0, 0); ni++;
			add (s, S_CREATE, 0); add (s, S_SET, 0);
			if (ro == 0) { add (s, S_BUILD, (uint64_t) (n - 1)); if (r > 1) add (s, S_BUILD, (uint64_t) k); }
			if (ro == 2) add (s, S_BUILD, (uint64_t) (n - 1));
			if (ro != 0) { for (q = 0; q < k && q < 3; q++) add (s, S_DWS, (uint64_t) (n - 1 - q)); add (s, S_QUERY, 0); }
			add (s, S_RELEASE, 0);
		}
		{	/* the same for LDPC-Staircase: shapes sharing n-k, k, or everything but the parity of N1 */
			static const int lsh[4][4] = {{3, 4, 3, 1}, {3, 4, 4, 1}, {5, 4, 3, 2}, {3, 6, 3, 1}};
			static char lnames[16][48];
			int li = 0;
			for (pi = 0; pi < 4; pi++) for (ro = 0; ro < 3; ro++) {
				int k = lsh[pi][0], r = lsh[pi][1], n = k + r;
				snprintf (lnames[li], sizeof lnames[li], "ldpc-%s-k%d-r%d-N1%d", ro == 0 ? "enc" : ro == 1 ? "dec" : "encdec", k, r, lsh[pi][2]);
				s = new_script (lnames[li], 3, ro == 0 ? OF_ENCODER : ro == 1 ? OF_DECODER : OF_ENCODER_AND_DECODER, k, r, 6, 0, lsh[pi][2], lsh[pi][3], 0); li++;
				add (s, S_CREATE, 0); add (s, S_SET, 0);
				if (ro != 1) add (s, S_BUILDALL, 0);
				if (ro == 0) add (s, S_CTRL, 0);
				if (ro != 0) { add (s, S_DWS, (uint64_t) (n - 1)); add (s, S_DWS, (uint64_t) (n - 2)); add (s, S_DWS, (uint64_t) k); add (s, S_FIN, 0); add (s, S_QUERY, 0); }
				add (s, S_RELEASE, 0);
			}
		}
	}
}

/* ------------------------------------------------------------------ baseline (script alone, pristine process) */
static void baseline_child (long it, void *arg)
{
	inst_t x;
	(void) arg;
	inst_init (&x, &SCR[it]);
	while (x.pc < x.s->nsteps) inst_step (&x);
	memcpy (BASE[it], x.trace, sizeof x.trace);
	inst_free (&x);
}

/* ------------------------------------------------------------------ interleavings */
typedef struct { int ns; int sc[4]; int maxsw; } combo_t;
static combo_t *CB; static long NCB;
static long g_cur_item = -1, g_sched_idx, g_stop_after = -1;	/* the schedules of one combination run in one process, in a fixed order: (item, index) identifies a history */
static int g_thorough_flag;
static int g_maxswitch;

static void run_schedule (const combo_t *c, const unsigned char *sched, int len)
{
	inst_t x[4];
	int i, j;
	char cs[VF_SLOT_LEN]; size_t l;
	if (g_stop_after >= 0 && g_sched_idx > g_stop_after) return;
	l = (size_t) snprintf (cs, sizeof cs, "item=%ld idx=%ld tier=%s scripts=", g_cur_item, g_sched_idx, g_thorough_flag ? "thorough" : "quick");
	g_sched_idx++;
	for (i = 0; i < c->ns; i++) l += (size_t) snprintf (cs + l, sizeof cs - l, "%d%s", c->sc[i], i + 1 < c->ns ? "," : "");
	l += (size_t) snprintf (cs + l, sizeof cs - l, " schedule=");
	for (i = 0; i < len && l + 2 < sizeof cs; i++) cs[l++] = (char) ('0' + sched[i]);
	cs[l] = 0;
	memcpy (vf_slot (), cs, sizeof cs);
	for (i = 0; i < c->ns; i++) inst_init (&x[i], &SCR[c->sc[i]]);
	/* two sessions running the same script are fed from the SAME application buffers (one packet handed to two decoders) */
	for (i = 1; i < c->ns; i++) for (j = 0; j < i; j++) if (c->sc[i] == c->sc[j] && !x[i].shared_sym) {
		int q, nn = x[i].s->k + x[i].s->r;
		for (q = 0; q < nn; q++) free (x[i].sym[q]);
		free (x[i].sym); x[i].sym = x[j].sym; x[i].shared_sym = 1;
	}
	for (i = 0; i < len; i++) inst_step (&x[sched[i]]);
	for (i = 0; i < c->ns; i++) {
		const script_t *s = x[i].s;
		for (j = 0; j < s->nsteps; j++)
			if (x[i].trace[j] != BASE[c->sc[i]][j]) {
				static const char *kn[] = {"create", "set_fec_parameters", "build", "decode_with_new_symbol", "set_available_symbols", "finish_decoding", "query", "get_control_parameter", "release", "cascade-of-decode_with_new_symbol", "build-all", "set_callback_functions"};
				char sig[200];
				snprintf (sig, sizeof sig, "script=%s|diverges-at=%s|with=%s", s->name, kn[s->st[j].kind], c->ns == 2 ? SCR[c->sc[1 - i]].name : "two-others");
				vf_viol ("C12", sig, "%s", cs);
				break;
			}
	}
	for (i = c->ns - 1; i >= 0; i--) inst_free (&x[i]);	/* sharers of a buffer set before its owner */
	vf_stat_add (st_exec, 1); vf_stat_add (st_trans, len);
}

static void enum_rec (const combo_t *c, int *left, unsigned char *sched, int pos, int total, int last, int switches)
{
	int i;
	if (pos == total) { run_schedule (c, sched, total); return; }
	for (i = 0; i < c->ns; i++) {
		int sw = switches + (last >= 0 && last != i ? 1 : 0);
		if (!left[i]) continue;
		if (c->ns > 2 && sw > (c->maxsw ? c->maxsw : g_maxswitch)) continue;
		left[i]--; sched[pos] = (unsigned char) i;
		enum_rec (c, left, sched, pos + 1, total, i, sw);
		left[i]++;
	}
}
static void item_body (long it, void *arg)
{
	const combo_t *c = &CB[it];
	int left[4] = {0, 0, 0, 0}, total = 0, i;
	unsigned char sched[4 * MAXSTEP];
	(void) arg;
	vf_slot_set_prop ("C12");
	g_cur_item = it; g_sched_idx = 0;
	for (i = 0; i < c->ns; i++) { left[i] = SCR[c->sc[i]].nsteps; total += left[i]; }
	enum_rec (c, left, sched, 0, total, -1, 0);
	vf_stat_add (st_states, 1);
	vf_stat_add (c->ns == 2 ? st_pairs : c->ns == 3 ? st_triples : st_quads, 1);
}
/* every combination starts from a pristine copy of the process (fork): the library's global state then depends only on the
 * schedules of this combination executed so far, so (item, index) is a complete, replayable description of a history */
static void item (long it, void *arg)
{
	int rc;
	char ak[64], af[128];
	(void) arg;
	vf_slot_set_prop ("C12");
	if (vf_deadline_hit ()) { vf_incomplete ("deadline before combination %ld", it); return; }
	rc = vf_run_isolated (item_body, it, NULL, 0, ak, af, sizeof ak);
	if (rc != 0) {
		char sig[200];
		if (ak[0]) snprintf (sig, sizeof sig, "kind=asan:%s|func=%s", ak, af[0] ? af : "?"); else snprintf (sig, sizeof sig, "kind=%s:%d", rc > 0 ? "signal" : "abnormal-end", rc);
		vf_viol ("C12", sig, "%s", vf_slot ());
		vf_incomplete ("combination %ld aborted (%s)", it, sig);
	}
}
static void build_combos (int thorough);
static void item_replay (long it, void *arg)
{
	const char *cs = vf_replay_case (), *p;
	combo_t c; unsigned char sched[4 * MAXSTEP]; int len = 0;
	(void) it; (void) arg;
	vf_slot_set_prop ("C12");
	memset (&c, 0, sizeof c);
	if ((p = strstr (cs, "item=")) && strstr (cs, " idx=")) {
		long itn = strtol (p + 5, NULL, 10), idx = strtol (strstr (cs, " idx=") + 5, NULL, 10);
		g_thorough_flag = strstr (cs, "tier=thorough") != NULL;
		if (!CB) build_combos (g_thorough_flag);
		if (itn >= 0 && itn < NCB) { g_stop_after = idx; item_body (itn, NULL); }
		return;
	}
	p = strstr (cs, "scripts="); if (!p) return; p += 8;
	while (*p && *p != ' ' && c.ns < 4) { c.sc[c.ns++] = (int) strtol (p, (char **) &p, 10); if (*p == ',') p++; }
	p = strstr (cs, "schedule="); if (!p) return; p += 9;
	while (*p >= '0' && *p <= '3' && len < (int) sizeof sched) sched[len++] = (unsigned char) (*p++ - '0');
	run_schedule (&c, sched, len);
}

static void build_combos (int thorough)
{
	int a, b, c;
	CB = calloc (65536, sizeof (combo_t));
	for (a = 0; a < NSCR; a++) for (b = a; b < NSCR; b++) { CB[NCB].ns = 2; CB[NCB].sc[0] = a; CB[NCB].sc[1] = b; NCB++; }
	for (a = 0; a < NCORE; a++) for (b = a; b < NCORE; b++) for (c = b; c < NCORE; c++) { if (!thorough && a == b && b == c) continue; if (SCR[a].k >= 300 || SCR[b].k >= 300 || SCR[c].k >= 300) { if (!(thorough && a != b && b != c)) continue; } CB[NCB].ns = 3; CB[NCB].sc[0] = a; CB[NCB].sc[1] = b; CB[NCB].sc[2] = c; NCB++; }
	{	/* four sessions alive at once: every set of four distinct scripts, each script run in one or two pieces (<= 3 / 4 switches) */
		int d;
		for (a = 0; a < NCORE; a++) for (b = a + 1; b < NCORE; b++) for (c = b + 1; c < NCORE; c++) for (d = c + 1; d < NCORE; d++) {
			if (!thorough && ((a + b + c + d) % 3)) continue;
			if (SCR[a].k >= 300 || SCR[b].k >= 300 || SCR[c].k >= 300 || SCR[d].k >= 300) continue;
			CB[NCB].ns = 4; CB[NCB].sc[0] = a; CB[NCB].sc[1] = b; CB[NCB].sc[2] = c; CB[NCB].sc[3] = d; CB[NCB].maxsw = thorough ? 4 : 3; NCB++;
		}
	}
}

int main (int argc, char **argv)
{
	int thorough, a, b, c;
	vf_init (argc, argv);
	thorough = vf_tier_thorough ();
	st_states = vf_stat_id ("states"); st_trans = vf_stat_id ("transitions"); st_exec = vf_stat_id ("executions"); st_dn = vf_stat_id ("distinct_nontrivial");
	st_pairs = vf_stat_id ("pairs"); st_triples = vf_stat_id ("triples"); st_quads = vf_stat_id ("quadruples");
	build_catalogue ();
	BASE = mmap (NULL, sizeof (uint64_t) * MAXSTEP * MAXSCR, PROT_READ | PROT_WRITE, MAP_SHARED | MAP_ANONYMOUS, -1, 0);
	for (a = 0; a < NSCR; a++) {
		int rc = vf_run_isolated (baseline_child, a, NULL, 60, NULL, NULL, 0);
		if (rc != 0) { vf_viol ("C12", "kind=script-alone-crashes", "scripts=%d schedule=%s", a, "0000000"); }
	}
	/* a second baseline in the same pristine way must agree (determinism of the baseline itself) */
	{
		static uint64_t keep[MAXSCR][MAXSTEP];
		memcpy (keep, BASE, sizeof keep);
		for (a = 0; a < NSCR; a++) { vf_run_isolated (baseline_child, a, NULL, 60, NULL, NULL, 0); if (memcmp (keep[a], BASE[a], sizeof keep[a])) vf_viol ("MACHINERY", "kind=baseline-not-deterministic", "script %s", SCR[a].name); }
	}
	g_maxswitch = (int) vf_opt_long ("switches", thorough ? 5 : 3);
	if (vf_replay_case ()) { vf_pool_run (1, item_replay, NULL, 600); vf_finish (); return 0; }
	g_thorough_flag = thorough;
	build_combos (thorough);
	vf_note ("%d scripts, %ld combinations (pairs: all interleavings; triples: <= %d context switches)", NSCR, NCB, g_maxswitch);
	vf_pool_run (NCB, item, NULL, 0);
	vf_stat_add (st_dn, vf_stat_get (st_exec));
	for (a = 0; a < NSCR; a++) vf_outcome (SCR[a].name, SCR[a].nsteps);
	for (a = 0; a < NSCR; a++) { int q, has = 0; for (q = 0; q < SCR[a].nsteps; q++) if (SCR[a].st[q].kind == S_CASCADE) has = 1; if (has) { inst_t x; inst_init (&x, &SCR[a]); vf_note ("script %s: cascade of %d nested rebuilt repair symbols (missing source first appears in equation %d)", SCR[a].name, x.key_repair - SCR[a].k, x.key_repair - SCR[a].k); inst_free (&x); } }
	vf_sample ("scripts=1,5 schedule=0101010101010: rs28-decoder-matrix interleaved call by call with ldpc-decoder-ml; both traces equal their stand-alone traces");
	vf_sample ("ldpc-decoder-ml receives mask 0x%llx: peeling fails, the system has full rank, FINISH runs Gaussian elimination and consumes rand()", (unsigned long long) SCR[5].st[2].a);
	vf_finish ();
	return 0;
}
