/* h_prng.c — C19: the RFC 5170 PRNG is the Park-Miller minimal standard.
 * Explicit-state model checking of a one-variable machine: the state space is the single cycle of
 * 2^31-2 values of of_seed. Every state is visited (split into arcs with a modular-exponentiation
 * jump-ahead; each arc's end must equal the next arc's start, the last must return to 1).
 * In every state: of_seed' = 16807*s mod (2^31-1); for every maxv of the tier's list the value
 * returned equals the RFC expression evaluated independently, lies in 0..maxv-1 and equals the exact
 * floor(s'*maxv/(2^31-1)) whenever s'*maxv < 2^53. Seeding accepts exactly 1..2^31-2. */
#include "vf.h"
#include "ref.h"
#include "lib_common/of_openfec_api.h"
#include "lib_common/of_rand.h"

extern UINT64 of_seed;
#define M31 ((uint64_t) 0x7FFFFFFF)
#define TOTAL ((uint64_t) 0x7FFFFFFE)	/* cycle length */
#define NARCS 256

static uint64_t MAXV[256]; static int NMAXV;
static int st_states, st_trans, st_exec, st_dn, st_seedchk;
static uint64_t arc_start[NARCS + 1];

static uint64_t modpow (uint64_t b, uint64_t e)
{
	uint64_t r = 1;
	b %= M31;
	while (e) { if (e & 1) r = (r * b) % M31; b = (b * b) % M31; e >>= 1; }
	return r;
}

static void bad (const char *kind, uint64_t s, uint64_t maxv, uint64_t got, uint64_t want)
{
	char sig[96];
	snprintf (sig, sizeof sig, "kind=%s", kind);
	vf_viol ("C19", sig, "state=%llu maxv=%llu got=%llu want=%llu", (unsigned long long) s, (unsigned long long) maxv, (unsigned long long) got, (unsigned long long) want);
}

static void check_state (uint64_t s, int all_maxv)
{
	uint64_t want = (s * (uint64_t) 16807) % M31;
	int i, n = all_maxv ? NMAXV : 1;
	for (i = 0; i < n; i++) {
		uint64_t mv = MAXV[i], v, rfc;
		of_seed = s;
		v = of_rfc5170_rand (mv);
		if (of_seed != want) { bad ("wrong-next-state", s, mv, of_seed, want); return; }
		rfc = (uint64_t) ((double) want * (double) mv / (double) 0x7FFFFFFF);
		if (v != rfc) bad ("value-differs-from-rfc-expression", s, mv, v, rfc);
		if (v >= mv) bad ("value-out-of-range", s, mv, v, mv - 1);
		if ((unsigned __int128) want * mv < ((unsigned __int128) 1 << 53)) {
			uint64_t ex = (uint64_t) (((unsigned __int128) want * mv) / M31);
			if (v != ex) bad ("value-differs-from-exact-floor", s, mv, v, ex);
		}
	}
}

static void item_arc (long it, void *arg)
{
	uint64_t s = arc_start[it], steps = (it == NARCS - 1) ? TOTAL - (TOTAL / NARCS) * (NARCS - 1) : TOTAL / NARCS, j;
	(void) arg;
	vf_slot_set_prop ("C19");
	snprintf (vf_slot (), VF_SLOT_LEN, "arc=%ld start=%llu", it, (unsigned long long) s);
	for (j = 0; j < steps; j++) {
		check_state (s, 1);
		s = (s * (uint64_t) 16807) % M31;	/* reference walk (the library's next state was compared with it above) */
		if ((j & 0xFFFFF) == 0) vf_heartbeat ();
		if ((j & 0xFFFFF) == 0 && vf_deadline_hit ()) { vf_incomplete ("arc %ld stopped at step %llu of %llu (deadline)", it, (unsigned long long) j, (unsigned long long) steps); vf_stat_add (st_states, (long) j); vf_stat_add (st_trans, (long) j * NMAXV); return; }
	}
	if (s != arc_start[it + 1]) bad ("arc-end-differs-from-next-arc-start", arc_start[it], 0, s, arc_start[it + 1]);
	vf_stat_add (st_states, (long) steps);
	vf_stat_add (st_trans, (long) steps * NMAXV);
}

/* every maxv the library can ever pass (it draws row and column indices: maxv <= N1*k <= 255*50000, in practice far
 * below 2^20) on a band of states: item = block of 4096 maxv values; states = the first 2048 of the cycle from seed 1,
 * the last 2048 before it closes, and 2^31-2, 2^30, 2^30+1 */
#define BAND 4099
static uint64_t band[BAND];
static void item_band (long it, void *arg)
{
	uint64_t mv, lo = (uint64_t) it * 4096 + 1, hi = lo + 4096;
	int i;
	(void) arg;
	vf_slot_set_prop ("C19");
	snprintf (vf_slot (), VF_SLOT_LEN, "band maxv=%llu..%llu", (unsigned long long) lo, (unsigned long long) hi - 1);
	for (mv = lo; mv < hi; mv++) {
		for (i = 0; i < BAND; i++) {
			uint64_t s = band[i], want = (s * (uint64_t) 16807) % M31, v, rfc;
			of_seed = s;
			v = of_rfc5170_rand (mv);
			rfc = (uint64_t) ((double) want * (double) mv / (double) 0x7FFFFFFF);
			if (of_seed != want) { bad ("wrong-next-state", s, mv, of_seed, want); return; }
			if (v != rfc) { bad ("value-differs-from-rfc-expression", s, mv, v, rfc); return; }
			if (v >= mv) { bad ("value-out-of-range", s, mv, v, mv - 1); return; }
			if (v != (uint64_t) (((unsigned __int128) want * mv) / M31)) { bad ("value-differs-from-exact-floor", s, mv, v, (uint64_t) (((unsigned __int128) want * mv) / M31)); return; }
		}
		if ((mv & 255) == 0) vf_heartbeat ();
	}
	vf_stat_add (st_trans, (long) 4096 * BAND);
}

/* critical states: the returned value is floor(s'*maxv/(2^31-1)) computed in double precision, so the only places where
 * an implementation can differ from the RFC expression (or the RFC expression from the exact floor) are the states whose
 * product s'*maxv lies next to a multiple of 2^31-1. For EVERY maxv the library can pass (1 .. 255*50000) and every
 * residue rho in {0,1,2,3,M-4,..,M-1}: s' = rho * maxv^-1 mod M, s = s' * 16807^-1 mod M. item = block of 8192 maxv */
static uint64_t modinv (uint64_t a) { return modpow (a, M31 - 2); }
static uint64_t g_inv_a;
static void item_crit (long it, void *arg)
{
	uint64_t mv, lo = (uint64_t) it * 8192 + 1, hi = lo + 8192;
	long n = 0;
	int q;
	(void) arg;
	vf_slot_set_prop ("C19");
	snprintf (vf_slot (), VF_SLOT_LEN, "critical maxv=%llu..", (unsigned long long) lo);
	for (mv = lo; mv < hi && mv <= 12750000; mv++) {
		uint64_t inv = modinv (mv % M31);
		for (q = 0; q < 8; q++) {
			uint64_t rho = q < 4 ? (uint64_t) q : M31 - (uint64_t) (8 - q), sp = (rho % M31) * inv % M31, s, v, rfc;
			if (sp == 0) continue;
			s = sp * g_inv_a % M31;
			of_seed = s;
			v = of_rfc5170_rand (mv);
			n++;
			rfc = (uint64_t) ((double) sp * (double) mv / (double) 0x7FFFFFFF);
			if (of_seed != sp) { bad ("wrong-next-state", s, mv, of_seed, sp); return; }
			if (v != rfc) { bad ("value-differs-from-rfc-expression", s, mv, v, rfc); return; }
			if (v >= mv) { bad ("value-out-of-range", s, mv, v, mv - 1); return; }
			if ((unsigned __int128) sp * mv < ((unsigned __int128) 1 << 53) && v != (uint64_t) (((unsigned __int128) sp * mv) / M31)) { bad ("value-differs-from-exact-floor", s, mv, v, (uint64_t) (((unsigned __int128) sp * mv) / M31)); return; }
		}
	}
	vf_heartbeat ();
	vf_stat_add (st_trans, n);
}

/* seeding windows: item = window index */
static const struct { uint64_t lo, hi; uint64_t stride; } WIN[] = {
	{0, 1 << 16, 1}, {M31 - 1 - (1 << 16), M31 + (1 << 16), 1}, {((uint64_t) 1 << 32) - (1 << 16), ((uint64_t) 1 << 32) + (1 << 16), 1},
	{((uint64_t) 1 << 63) - (1 << 16), ((uint64_t) 1 << 63) + (1 << 16), 1}, {~(uint64_t) 0 - (1 << 17), ~(uint64_t) 0, 1},
	{0, (uint64_t) 1 << 32, 4099}, {(uint64_t) 1 << 32, (uint64_t) 1 << 40, 268435459ULL}, {((uint64_t) 1 << 31) - 70000, ((uint64_t) 1 << 31) + 70000, 1},
};
static void item_seed (long it, void *arg)
{
	uint64_t s, sentinel = 12345;
	long n = 0;
	(void) arg;
	vf_slot_set_prop ("C19");
	for (s = WIN[it].lo; ; s += WIN[it].stride) {
		int ok = s >= 1 && s <= M31 - 1;
		of_seed = sentinel;
		of_rfc5170_srand (s);
		if (ok && of_seed != s) bad ("valid-seed-not-accepted", s, 0, of_seed, s);
		if (!ok && of_seed != sentinel) bad ("invalid-seed-changed-state", s, 0, of_seed, sentinel);
		n++;
		if ((n & 0xFFFF) == 0) vf_heartbeat ();
		if (s >= WIN[it].hi || s + WIN[it].stride < s) break;
	}
	if (it == 4) { of_seed = sentinel; of_rfc5170_srand (~(uint64_t) 0); if (of_seed != sentinel) bad ("invalid-seed-changed-state", ~(uint64_t) 0, 0, of_seed, sentinel); n++; }
	vf_stat_add (st_seedchk, n);
}

int main (int argc, char **argv)
{
	/* the values above 2^22 matter most: there s'*maxv can exceed 2^53 and only the RFC's double expression is the specification */
	static const uint64_t quick[] = {1, 2, 3, 5, 255, 256, 1000, 65535, 65536, 1 << 20, 12750000, 4194305, 6000000, 8388607, 8388608, 8388609, 10000019, 12749995, 12749999};
	int i, thorough;
	vf_init (argc, argv);
	thorough = vf_tier_thorough ();
	st_states = vf_stat_id ("states"); st_trans = vf_stat_id ("transitions"); st_exec = vf_stat_id ("executions"); st_dn = vf_stat_id ("distinct_nontrivial"); st_seedchk = vf_stat_id ("seed_values_checked");
	for (i = 0; i < (int) (sizeof quick / sizeof quick[0]); i++) MAXV[NMAXV++] = quick[i];
	if (thorough) {
		uint64_t v; int e;
		for (v = 4; v <= 64; v++) if (v != 5) MAXV[NMAXV++] = v;
		for (e = 7; e <= 24; e++) { if (e != 8 && e != 16 && e != 20) MAXV[NMAXV++] = (uint64_t) 1 << e; if (e != 8 && e != 16) MAXV[NMAXV++] = ((uint64_t) 1 << e) - 1; MAXV[NMAXV++] = ((uint64_t) 1 << e) + 1; }
		MAXV[NMAXV++] = 150000; MAXV[NMAXV++] = 5000011; MAXV[NMAXV++] = 7000003; MAXV[NMAXV++] = 9000011; MAXV[NMAXV++] = 11000027; MAXV[NMAXV++] = 12000017; MAXV[NMAXV++] = 12749990;
	}
	{	/* 10 000th state after seed 1, through the library itself */
		uint64_t v = 0;
		of_rfc5170_srand (1);
		for (i = 0; i < 10000; i++) v = of_rfc5170_rand (0x7FFFFFFF);
		if (of_seed != 1043618065ULL) bad ("10000th-state", 1, 0x7FFFFFFF, of_seed, 1043618065ULL);
		vf_sample ("seed 1 -> 10000th state %llu (value returned for maxv=2^31-1: %llu)", (unsigned long long) of_seed, (unsigned long long) v);
		of_seed = 1; v = of_rfc5170_rand (1000);
		vf_sample ("state 1 -> state %llu, rand(1000)=%llu", (unsigned long long) of_seed, (unsigned long long) v);
		of_seed = M31 - 1; v = of_rfc5170_rand (12750000);
		vf_sample ("state 2^31-2 -> state %llu, rand(12750000)=%llu", (unsigned long long) of_seed, (unsigned long long) v);
	}
	for (i = 0; i <= NARCS; i++) arc_start[i] = modpow (16807, (TOTAL / NARCS) * (uint64_t) i);
	arc_start[NARCS] = 1;	/* the cycle closes: 16807^(2^31-2) = 1 mod 2^31-1 */
	if (modpow (16807, TOTAL) != 1) bad ("reference-cycle", 0, 0, modpow (16807, TOTAL), 1);
	if (vf_replay_case ()) {
		unsigned long long s = 0, mv = 0;
		if (sscanf (vf_replay_case (), "state=%llu maxv=%llu", &s, &mv) == 2) {
			if (mv) { NMAXV = 1; MAXV[0] = mv; check_state (s, 1); }
			else { of_seed = 12345; of_rfc5170_srand (s); if ((s >= 1 && s <= M31 - 1) ? of_seed != s : of_seed != 12345) bad ("seeding", s, 0, of_seed, s); }
		}
		vf_finish ();
		return 0;
	}
	vf_note ("maxv list (%d values): first %llu last %llu", NMAXV, (unsigned long long) MAXV[0], (unsigned long long) MAXV[NMAXV - 1]);
	vf_pool_run (NARCS, item_arc, NULL, 0);
	vf_pool_run ((long) (sizeof WIN / sizeof WIN[0]), item_seed, NULL, 0);
	{	/* maxv 1 .. 2^20 (thorough 2^22: s'*maxv < 2^53 holds for all of them, so the exact floor is demanded too) */
		uint64_t s = 1; int i; long nblk = thorough ? 1024 : 256;
		for (i = 0; i < 2048; i++) { band[i] = s; s = (s * 16807) % M31; }
		s = modpow (16807, TOTAL - 2048);
		for (i = 0; i < 2048; i++) { band[2048 + i] = s; s = (s * 16807) % M31; }
		band[4096] = M31 - 1; band[4097] = (uint64_t) 1 << 30; band[4098] = ((uint64_t) 1 << 30) + 1;
		if (s != 1) bad ("reference-cycle", 0, 0, s, 1);
		vf_pool_run (nblk, item_band, NULL, 0);
		g_inv_a = modinv (16807);
		if (g_inv_a * 16807 % M31 != 1) bad ("reference-inverse", 0, 0, g_inv_a, 0);
		vf_pool_run ((12750000 + 8191) / 8192, item_crit, NULL, 0);
		vf_outcome ("critical_state_maxv_values", 12750000);
		vf_outcome ("band_maxv_values", nblk * 4096); vf_outcome ("band_states", BAND);
	}
	vf_stat_add (st_exec, vf_stat_get (st_trans));
	vf_stat_add (st_dn, vf_stat_get (st_states));
	vf_outcome ("states_visited", vf_stat_get (st_states));
	vf_outcome ("maxv_values", NMAXV);
	vf_finish ();
	return 0;
}
