/* h_sparse.c — C17: the sparse GF(2) matrix is a set of (row,col) pairs under any operation sequence.
 * Explicit-state BFS over operation sequences on two real matrices A and B against a set model.
 * The library is built with the verification hook OPENFEC_VERIF_SPARSE_BLOCK=4 so that "free list
 * empty -> new block" and "recycle a freed entry" occur within a few steps.
 * Alphabet: insert / delete(find) on A and B, clear, copy, copyrows, copycols (every index vector),
 * copyrows_opt / copycols_opt into an EMPTY destination (how the library uses them), copy_filled_matrix
 * with every order-preserving index map, sparse->dense->sparse round trip, free + reallocate.
 * Oracle after every step: find <=> member for every cell; inserting an existing entry returns it;
 * every row and column traversal lists exactly the members in strictly increasing order, forwards and
 * backwards; ASan variant: no report; trk variant: freeing the matrices releases everything. */
#include "bfs.h"
#include "lib_common/linear_binary_codes_utils/of_linear_binary_code.h"

typedef struct { int ra, ca, rb, cb; } scfg_t;
enum { K_INS, K_DEL, K_CLEAR, K_COPY, K_COPYROWS, K_COPYCOLS, K_COPYROWS_OPT, K_COPYCOLS_OPT, K_FILLED, K_ROUNDTRIP, K_REALLOC, K_FDI, K_FID };
typedef struct { int kind, src, i, j; int vec[6], vec2[6]; } sop_t;	/* src: 0 = A (dest B for binary ops), 1 = B */
static sop_t OPS[16384]; static int NOPS;
static scfg_t CFG;
static const char *KN[] = {"ins", "del", "clear", "copy", "copyrows", "copycols", "copyrows_opt", "copycols_opt", "copy_filled", "roundtrip", "realloc", "find-delete-insert", "find-insert-delete"};

typedef struct {
	of_mod2sparse *m[2];
	unsigned char set[2][6][6];	/* model */
	int r[2], c[2];
#ifdef VF_TRK
	uint64_t mark; long bad0;
#endif
} sw_t;

static char g_desc[VF_SLOT_LEN];
static void sviol (const char *sig) { vf_viol ("C17", sig, "%s", g_desc); }

static void *s_fresh (void *cfg)
{
	scfg_t *c = cfg;
	sw_t *w = calloc (1, sizeof *w);
	w->r[0] = c->ra; w->c[0] = c->ca; w->r[1] = c->rb; w->c[1] = c->cb;
#ifdef VF_TRK
	w->mark = vf_trk_mark (); w->bad0 = vf_trk_badfree_count ();
#endif
	w->m[0] = of_mod2sparse_allocate ((UINT32) c->ra, (UINT32) c->ca);
	w->m[1] = of_mod2sparse_allocate ((UINT32) c->rb, (UINT32) c->cb);
	return w;
}
static void s_destroy (void *wv, int check)
{
	sw_t *w = wv;
	int t;
	for (t = 0; t < 2; t++) { of_mod2sparse_free (w->m[t]); of_free (w->m[t]); }
#ifdef VF_TRK
	if (check) {
		if (vf_trk_live_since (w->mark, NULL) != 0) sviol ("kind=leak-after-free");
		if (vf_trk_badfree_count () != w->bad0) sviol ("kind=free-of-non-live-block");
	}
#endif
	(void) check;
	free (w);
}
static int empty (sw_t *w, int t) { int i, j; for (i = 0; i < w->r[t]; i++) for (j = 0; j < w->c[t]; j++) if (w->set[t][i][j]) return 0; return 1; }

static int s_enabled (void *wv, int op)
{
	sw_t *w = wv;
	sop_t *o = &OPS[op];
	int s = o->src, d = 1 - s;
	switch (o->kind) {
	case K_INS: return 1;
	case K_DEL: return w->set[s][o->i][o->j];
	case K_CLEAR: case K_ROUNDTRIP: case K_REALLOC: return 1;
	case K_COPY: return w->r[s] <= w->r[d] && w->c[s] <= w->c[d];
	case K_COPYROWS: return w->c[s] <= w->c[d];
	case K_COPYCOLS: return w->r[s] <= w->r[d];
	case K_COPYROWS_OPT: return w->c[s] <= w->c[d] && empty (w, d);
	case K_COPYCOLS_OPT: return w->r[s] <= w->r[d] && empty (w, d);
	case K_FILLED: return w->r[s] <= w->r[d] && w->c[s] <= w->c[d];
	case K_FDI: case K_FID: return w->set[s][o->vec[0]][o->vec[1]];
	}
	return 0;
}

static void check_matrix (sw_t *w, int t, const char *after)
{
	of_mod2sparse *m = w->m[t];
	of_mod2entry *e;
	int i, j;
	char sig[160];
	for (i = 0; i < w->r[t]; i++) {
		int prev = -1, cnt = 0, want = 0;
		for (j = 0; j < w->c[t]; j++) want += w->set[t][i][j];
		for (e = of_mod2sparse_first_in_row (m, i); !of_mod2sparse_at_end_row (e); e = of_mod2sparse_next_in_row (e)) {
			if (e->row != i || e->col <= prev || e->col >= w->c[t] || !w->set[t][i][e->col] || ++cnt > 8) { snprintf (sig, sizeof sig, "after=%s|kind=row-traversal-wrong", after); sviol (sig); return; }
			prev = e->col;
		}
		if (cnt != want) { snprintf (sig, sizeof sig, "after=%s|kind=row-traversal-misses-or-adds-entries", after); sviol (sig); return; }
		prev = w->c[t]; cnt = 0;
		for (e = of_mod2sparse_last_in_row (m, i); !of_mod2sparse_at_end_row (e); e = of_mod2sparse_prev_in_row (e)) {
			if (e->row != i || e->col >= prev || e->col < 0 || !w->set[t][i][e->col] || ++cnt > 8) { snprintf (sig, sizeof sig, "after=%s|kind=row-backward-traversal-wrong", after); sviol (sig); return; }
			prev = e->col;
		}
		if (cnt != want) { snprintf (sig, sizeof sig, "after=%s|kind=row-backward-traversal-misses-or-adds-entries", after); sviol (sig); return; }
	}
	for (j = 0; j < w->c[t]; j++) {
		int prev = -1, cnt = 0, want = 0;
		for (i = 0; i < w->r[t]; i++) want += w->set[t][i][j];
		for (e = of_mod2sparse_first_in_col (m, j); !of_mod2sparse_at_end_col (e); e = of_mod2sparse_next_in_col (e)) {
			if (e->col != j || e->row <= prev || e->row >= w->r[t] || !w->set[t][e->row][j] || ++cnt > 8) { snprintf (sig, sizeof sig, "after=%s|kind=col-traversal-wrong", after); sviol (sig); return; }
			prev = e->row;
		}
		if (cnt != want) { snprintf (sig, sizeof sig, "after=%s|kind=col-traversal-misses-or-adds-entries", after); sviol (sig); return; }
		prev = w->r[t]; cnt = 0;
		for (e = of_mod2sparse_last_in_col (m, j); !of_mod2sparse_at_end_col (e); e = of_mod2sparse_prev_in_col (e)) {
			if (e->col != j || e->row >= prev || e->row < 0 || !w->set[t][e->row][j] || ++cnt > 8) { snprintf (sig, sizeof sig, "after=%s|kind=col-backward-traversal-wrong", after); sviol (sig); return; }
			prev = e->row;
		}
		if (cnt != want) { snprintf (sig, sizeof sig, "after=%s|kind=col-backward-traversal-misses-or-adds-entries", after); sviol (sig); return; }
	}
	for (i = 0; i < w->r[t]; i++) for (j = 0; j < w->c[t]; j++) {
		of_mod2entry *f = of_mod2sparse_find (m, (UINT32) i, (UINT32) j);
		if ((f != NULL) != (w->set[t][i][j] != 0)) { snprintf (sig, sizeof sig, "after=%s|kind=find-disagrees-with-membership", after); sviol (sig); return; }
		if (f && (f->row != i || f->col != j)) { snprintf (sig, sizeof sig, "after=%s|kind=find-returns-wrong-entry", after); sviol (sig); return; }
		if (f) {	/* idempotent insert */
			of_mod2entry *g = of_mod2sparse_insert (m, (UINT32) i, (UINT32) j);
			if (g != f) { snprintf (sig, sizeof sig, "after=%s|kind=insert-of-existing-entry-not-idempotent", after); sviol (sig); return; }
		}
	}
	if ((of_mod2sparse_empty_row (m, 0) != 0) != (of_mod2sparse_at_end_row (of_mod2sparse_first_in_row (m, 0)) != 0)) sviol ("kind=empty_row-wrong");
}

static void s_apply (void *wv, int op, int check)
{
	sw_t *w = wv;
	sop_t *o = &OPS[op];
	int s = o->src, d = 1 - s, i, j;
	of_mod2sparse *S = w->m[s], *D = w->m[d];
	UINT32 v[6], v2[6];
	for (i = 0; i < 6; i++) { v[i] = (UINT32) o->vec[i]; v2[i] = (UINT32) o->vec2[i]; }
	switch (o->kind) {
	case K_INS: {
		of_mod2entry *e = of_mod2sparse_insert (S, (UINT32) o->i, (UINT32) o->j);
		if (check && (!e || e->row != o->i || e->col != o->j)) sviol ("after=ins|kind=insert-returned-wrong-entry");
		w->set[s][o->i][o->j] = 1;
		break; }
	case K_DEL: {
		of_mod2entry *e = of_mod2sparse_find (S, (UINT32) o->i, (UINT32) o->j);
		if (!e) { if (check) sviol ("after=del|kind=find-missed-a-member"); }
		else of_mod2sparse_delete (S, e);
		w->set[s][o->i][o->j] = 0;
		break; }
	case K_CLEAR: of_mod2sparse_clear (S); memset (w->set[s], 0, sizeof w->set[s]); break;
	case K_COPY: of_mod2sparse_copy (S, D); memset (w->set[d], 0, sizeof w->set[d]); for (i = 0; i < w->r[s]; i++) for (j = 0; j < w->c[s]; j++) w->set[d][i][j] = w->set[s][i][j]; break;
	case K_COPYROWS: case K_COPYROWS_OPT:
		if (o->kind == K_COPYROWS) of_mod2sparse_copyrows (S, D, v); else of_mod2sparse_copyrows_opt (S, D, v, NULL);
		memset (w->set[d], 0, sizeof w->set[d]);
		for (i = 0; i < w->r[d]; i++) for (j = 0; j < w->c[s]; j++) w->set[d][i][j] = w->set[s][o->vec[i]][j];
		break;
	case K_COPYCOLS: case K_COPYCOLS_OPT:
		if (o->kind == K_COPYCOLS) of_mod2sparse_copycols (S, D, v); else of_mod2sparse_copycols_opt (S, D, v);
		memset (w->set[d], 0, sizeof w->set[d]);
		for (j = 0; j < w->c[d]; j++) for (i = 0; i < w->r[s]; i++) w->set[d][i][j] = w->set[s][i][o->vec[j]];
		break;
	case K_FILLED:
		of_mod2sparse_copy_filled_matrix (S, D, v, v2);
		for (i = 0; i < w->r[s]; i++) for (j = 0; j < w->c[s]; j++) if (w->set[s][i][j]) w->set[d][o->vec[i]][o->vec2[j]] = 1;
		break;
	case K_ROUNDTRIP: {
		of_mod2dense *dm = of_mod2dense_allocate ((UINT32) w->r[s], (UINT32) w->c[s]);
		of_mod2sparse_to_dense (S, dm);
		if (check) for (i = 0; i < w->r[s]; i++) for (j = 0; j < w->c[s]; j++) if ((of_mod2dense_get (dm, (UINT32) i, (UINT32) j) != 0) != (w->set[s][i][j] != 0)) { sviol ("after=roundtrip|kind=sparse_to_dense-wrong"); i = 99; break; }
		of_mod2dense_to_sparse (dm, S);		/* clears S, then re-inserts */
		of_mod2dense_free (dm);
		break; }
	case K_FDI: case K_FID: {
		/* how applications move an entry: a pointer to entry Y obtained earlier by walking its row (no find), a query for cell X,
		 * then delete (Y) and insert (Z) in either order, with nothing else in between (a pure query leaves the abstract state
		 * unchanged, so the search would never extend a history through it: the composite operation does) */
		of_mod2entry *ey, *ex, *ez;
		for (ey = of_mod2sparse_first_in_row (S, o->vec[0]); !of_mod2sparse_at_end_row (ey) && ey->col != o->vec[1]; ey = of_mod2sparse_next_in_row (ey)) ;
		if (of_mod2sparse_at_end_row (ey)) { if (check) sviol ("after=traverse|kind=row-traversal-missed-a-member"); break; }
		ex = of_mod2sparse_find (S, (UINT32) o->i, (UINT32) o->j);
		if (check && ((ex != NULL) != (w->set[s][o->i][o->j] != 0) || (ex && (ex->row != o->i || ex->col != o->j)))) sviol ("after=find|kind=find-disagrees-with-membership");
		if (o->kind == K_FDI) of_mod2sparse_delete (S, ey);
		ez = of_mod2sparse_insert (S, (UINT32) o->vec[2], (UINT32) o->vec[3]);
		if (check && (!ez || ez->row != o->vec[2] || ez->col != o->vec[3])) sviol ("after=ins|kind=insert-returned-wrong-entry");
		if (o->kind == K_FID) of_mod2sparse_delete (S, ey);
		if (o->kind == K_FDI) { w->set[s][o->vec[0]][o->vec[1]] = 0; w->set[s][o->vec[2]][o->vec[3]] = 1; }
		else { w->set[s][o->vec[2]][o->vec[3]] = 1; w->set[s][o->vec[0]][o->vec[1]] = 0; }
		break; }
	case K_REALLOC:
		of_mod2sparse_free (S); of_free (S);
		w->m[s] = of_mod2sparse_allocate ((UINT32) w->r[s], (UINT32) w->c[s]);
		memset (w->set[s], 0, sizeof w->set[s]);
		break;
	}
	if (check) { check_matrix (w, 0, KN[o->kind]); check_matrix (w, 1, KN[o->kind]); }
}

static vf_h128 s_digest (void *wv)
{
	sw_t *w = wv;
	vf_h128 h;
	int t, i;
	vf_h_init (&h);
	for (t = 0; t < 2; t++) {
		of_mod2sparse *m = w->m[t];
		of_mod2entry *e;
		of_mod2block *b;
		long nfree = 0, nblk = 0;
		vf_h_bytes (&h, w->set[t], sizeof w->set[t]);
		for (i = 0; i < w->r[t]; i++) { for (e = of_mod2sparse_first_in_row (m, i); !of_mod2sparse_at_end_row (e); e = of_mod2sparse_next_in_row (e)) vf_h_u64 (&h, (uint64_t) e->col + 1); vf_h_u64 (&h, 0); }
		for (i = 0; i < w->c[t]; i++) { for (e = of_mod2sparse_first_in_col (m, i); !of_mod2sparse_at_end_col (e); e = of_mod2sparse_next_in_col (e)) vf_h_u64 (&h, (uint64_t) e->row + 1); vf_h_u64 (&h, 0); }
		for (b = m->blocks; b && nblk < 1000; b = b->next) nblk++;
		for (e = m->next_free; e && nfree < 100000; e = e->left) nfree++;
		vf_h_u64 (&h, (uint64_t) nblk * 100003 + (uint64_t) nfree);
	}
	return h;
}

static void s_describe (const bfs_hist *h, void *cfg, char *out, size_t sz)
{
	scfg_t *c = cfg;
	size_t l = (size_t) snprintf (out, sz, "dims=%dx%d,%dx%d ops=", c->ra, c->ca, c->rb, c->cb);
	int i;
	for (i = 0; i < h->len && l + 8 < sz; i++) l += (size_t) snprintf (out + l, sz - l, "%d,", h->ops[i]);
	if (out != g_desc) snprintf (g_desc, sizeof g_desc, "%s", out);
}

static void addop (int kind, int src, int i, int j, const int *vec, const int *vec2)
{
	sop_t o; memset (&o, 0, sizeof o);
	o.kind = kind; o.src = src; o.i = i; o.j = j;
	if (vec) memcpy (o.vec, vec, sizeof o.vec);
	if (vec2) memcpy (o.vec2, vec2, sizeof o.vec2);
	OPS[NOPS++] = o;
}
static void enum_vec (int kind, int src, int len, int range)
{
	int v[6] = {0, 0, 0, 0, 0, 0}, total = 1, x, i;
	for (i = 0; i < len; i++) total *= range;
	for (x = 0; x < total; x++) { int y = x; for (i = 0; i < len; i++) { v[i] = y % range; y /= range; } addop (kind, src, 0, 0, v, NULL); }
}
static void enum_incr (int *out, int *n, int len, int range)	/* all strictly increasing maps [0,len)->[0,range), flattened 6 per map */
{
	int v[6] = {0, 0, 0, 0, 0, 0}, i;
	*n = 0;
	if (len > range) return;
	for (i = 0; i < len; i++) v[i] = i;
	for (;;) {
		memcpy (out + 6 * (*n), v, sizeof v); (*n)++;
		for (i = len - 1; i >= 0 && v[i] == range - len + i; i--) ;
		if (i < 0) break;
		v[i]++;
		for (i = i + 1; i < len; i++) v[i] = v[i - 1] + 1;
	}
}
static void build_ops (const scfg_t *c)
{
	int s, i, j;
	NOPS = 0;
	for (s = 0; s < 2; s++) {
		int rs = s ? c->rb : c->ra, cs = s ? c->cb : c->ca, rd = s ? c->ra : c->rb, cd = s ? c->ca : c->cb;
		for (i = 0; i < rs; i++) for (j = 0; j < cs; j++) { addop (K_INS, s, i, j, NULL, NULL); addop (K_DEL, s, i, j, NULL, NULL); }
		addop (K_CLEAR, s, 0, 0, NULL, NULL); addop (K_ROUNDTRIP, s, 0, 0, NULL, NULL); addop (K_REALLOC, s, 0, 0, NULL, NULL);
		if (s == 0) {	/* composite query / delete-by-pointer / insert operations on A: every triple of cells for up to 6 cells, else (X = Z, Y) within one row or one column */
			int x, y, z, nc = rs * cs, kd;
			for (x = 0; x < nc; x++) for (y = 0; y < nc; y++) for (z = 0; z < nc; z++) for (kd = K_FDI; kd <= K_FID; kd++) {
				int v[6] = {y / cs, y % cs, z / cs, z % cs, 0, 0};
				int samerow = x / cs == y / cs && y / cs == z / cs, samecol = x % cs == y % cs && y % cs == z % cs;
				if (nc > 6 && ((!samerow && !samecol) || x != z)) continue;	/* larger matrices: query and insert the same cell, delete a neighbour in its row / column */
				addop (kd, s, x / cs, x % cs, v, NULL);
			}
		}
		if (rs <= rd && cs <= cd) addop (K_COPY, s, 0, 0, NULL, NULL);
		if (cs <= cd) { enum_vec (K_COPYROWS, s, rd, rs); enum_vec (K_COPYROWS_OPT, s, rd, rs); }
		if (rs <= rd) { enum_vec (K_COPYCOLS, s, cd, cs); enum_vec (K_COPYCOLS_OPT, s, cd, cs); }
		if (rs <= rd && cs <= cd) {
			int rm[6 * 40], cm[6 * 40], nr, nc, a, b;
			enum_incr (rm, &nr, rs, rd); enum_incr (cm, &nc, cs, cd);
			for (a = 0; a < nr; a++) for (b = 0; b < nc; b++) addop (K_FILLED, s, 0, 0, rm + 6 * a, cm + 6 * b);
		}
	}
}

static scfg_t CFGS[32]; static int NCFG; static int DEPTH[32]; static long CAP[32];
static int st_states, st_trans, st_exec, st_merges, st_audits, st_dn, st_self;

static void run_cfg (int ci)
{
	bfs_sys s;
	char tag[64];
	memset (&s, 0, sizeof s);
	CFG = CFGS[ci];
	build_ops (&CFG);
	s.nops = NOPS; s.fresh = s_fresh; s.enabled = s_enabled; s.apply = s_apply; s.digest = s_digest; s.destroy = s_destroy; s.describe = s_describe;
	s.maxdepth = DEPTH[ci]; s.statecap = CAP[ci]; s.audits = 30;
	snprintf (tag, sizeof tag, "sparse %dx%d,%dx%d", CFG.ra, CFG.ca, CFG.rb, CFG.cb);
	bfs_run (&s, &CFG, tag);
	vf_stat_add (st_states, s.states); vf_stat_add (st_trans, s.transitions); vf_stat_add (st_exec, s.executions);
	vf_stat_add (st_merges, s.merges); vf_stat_add (st_audits, s.audited); vf_stat_add (st_self, s.selfloops);
	if (s.capped) vf_incomplete ("%s: %s (states=%ld, depth reached %ld)", tag, s.capped == 1 ? "state cap" : s.capped == 2 ? "depth cap" : "deadline", s.states, s.maxdepth_seen);
	vf_note ("%s: alphabet=%d states=%ld transitions=%ld maxdepth=%ld", tag, NOPS, s.states, s.transitions, s.maxdepth_seen);
	{ char nm[64]; snprintf (nm, sizeof nm, "states:%dx%d,%dx%d", CFG.ra, CFG.ca, CFG.rb, CFG.cb); vf_outcome (nm, s.states); }
}

/* ------------------------------------------------------------------ conversions on wide matrices (more than one 32-bit word per dense row)
 * every subset of the boundary cells {rows 0,1} x {cols 0,31,32,33,63,64,65} of a 2x66 matrix: build it sparse,
 * convert to dense, back to sparse (into the same and into a fresh matrix), compare every cell and every traversal */
static const int WC[7] = {0, 31, 32, 33, 63, 64, 65};
static void conv_item (long it, void *arg)
{
	long lo = it * 1024, hi = lo + 1024, x;
	(void) arg;
	vf_slot_set_prop ("C17");
	for (x = lo; x < hi; x++) {
		of_mod2sparse *m = of_mod2sparse_allocate (2, 66), *m2 = of_mod2sparse_allocate (2, 66);
		of_mod2dense *d = of_mod2dense_allocate (2, 66);
		int i, j, b, pass;
		snprintf (g_desc, sizeof g_desc, "convwide cells=0x%lx", x); memcpy (vf_slot (), g_desc, sizeof g_desc);
		for (b = 0; b < 14; b++) if ((x >> b) & 1) of_mod2sparse_insert (m, (UINT32) (b / 7), (UINT32) WC[b % 7]);
		of_mod2sparse_to_dense (m, d);
		for (i = 0; i < 2; i++) for (j = 0; j < 66; j++) {
			int want = 0;
			for (b = 0; b < 14; b++) if (((x >> b) & 1) && b / 7 == i && WC[b % 7] == j) want = 1;
			if ((of_mod2dense_get (d, (UINT32) i, (UINT32) j) != 0) != want) { sviol ("after=sparse_to_dense|kind=cell-wrong|wide"); i = 9; break; }
		}
		of_mod2dense_to_sparse (d, m);		/* clears m, re-inserts */
		of_mod2dense_to_sparse (d, m2);
		for (pass = 0; pass < 2; pass++) {
			of_mod2sparse *q = pass ? m2 : m;
			int bad = 0;
			for (i = 0; i < 2 && !bad; i++) {
				of_mod2entry *e; int prev = -1, cnt = 0, want = 0;
				for (b = 0; b < 14; b++) if (((x >> b) & 1) && b / 7 == i) want++;
				for (e = of_mod2sparse_first_in_row (q, i); !of_mod2sparse_at_end_row (e); e = of_mod2sparse_next_in_row (e)) { if (e->col <= prev || ++cnt > 20) { bad = 1; break; } prev = e->col; }
				if (cnt != want) bad = 1;
				for (j = 0; j < 66 && !bad; j++) {
					int w = 0;
					for (b = 0; b < 14; b++) if (((x >> b) & 1) && b / 7 == i && WC[b % 7] == j) w = 1;
					if ((of_mod2sparse_find (q, (UINT32) i, (UINT32) j) != NULL) != w) bad = 1;
				}
			}
			if (bad) { sviol (pass ? "after=dense_to_sparse|kind=entries-differ|wide|fresh-destination" : "after=dense_to_sparse|kind=entries-differ|wide|same-destination"); break; }
		}
		of_mod2dense_free (d);
		of_mod2sparse_free (m); of_free (m); of_mod2sparse_free (m2); of_free (m2);
	}
	vf_stat_add (st_trans, 3 * 1024); vf_stat_add (st_exec, 1024); vf_stat_add (st_states, 1024);
}

static void item (long it, void *arg) { (void) arg; vf_slot_set_prop ("C17"); run_cfg ((int) it); }

static void item_replay (long it, void *arg)
{
	const char *cs = vf_replay_case (), *p;
	bfs_hist h; bfs_sys s;
	(void) it; (void) arg;
	vf_slot_set_prop ("C17");
	memset (&h, 0, sizeof h); memset (&s, 0, sizeof s);
	if (!strncmp (cs, "convwide cells=0x", 17)) { long x = strtol (cs + 17, NULL, 16); conv_item (x / 1024, NULL); return; }
	if (sscanf (cs, "dims=%dx%d,%dx%d", &CFG.ra, &CFG.ca, &CFG.rb, &CFG.cb) != 4) return;
	build_ops (&CFG);
	p = strstr (cs, "ops=");
	if (p) { p += 4; while (*p && h.len < BFS_MAXD) { h.ops[h.len++] = (uint16_t) strtol (p, (char **) &p, 10); if (*p == ',') p++; else break; } }
	s.nops = NOPS; s.fresh = s_fresh; s.enabled = s_enabled; s.apply = s_apply; s.digest = s_digest; s.destroy = s_destroy; s.describe = s_describe;
	bfs_exec (&s, &CFG, &h, NULL, NULL);
}

static void addcfg (int ra, int ca, int rb, int cb, int depth, long cap) { scfg_t c = {ra, ca, rb, cb}; CFGS[NCFG] = c; DEPTH[NCFG] = depth; CAP[NCFG] = cap; NCFG++; }

int main (int argc, char **argv)
{
	int thorough;
	vf_init (argc, argv);
	thorough = vf_tier_thorough ();
	st_states = vf_stat_id ("states"); st_trans = vf_stat_id ("transitions"); st_exec = vf_stat_id ("executions"); st_merges = vf_stat_id ("merges");
	st_audits = vf_stat_id ("merge_audits"); st_dn = vf_stat_id ("distinct_nontrivial"); st_self = vf_stat_id ("selfloops");
	if (vf_replay_case ()) { vf_pool_run (1, item_replay, NULL, 120); vf_finish (); return 0; }
	if (!thorough) {
		addcfg (2, 2, 2, 2, 30, 300000); addcfg (2, 2, 2, 3, 30, 300000); addcfg (1, 3, 2, 3, 30, 300000); addcfg (2, 1, 2, 2, 30, 300000);
		addcfg (2, 3, 3, 3, 5, 200000); addcfg (1, 2, 1, 2, 30, 100000); addcfg (3, 1, 3, 2, 30, 300000); addcfg (1, 4, 1, 4, 30, 300000);
		/* one larger matrix next to a trivial one: every entry set of a 4x3 / 3x4 matrix (rows > cols and cols > rows) */
		addcfg (4, 3, 1, 1, 30, 300000); addcfg (3, 4, 1, 1, 30, 300000);
	} else {
		addcfg (4, 3, 1, 1, 36, 3000000); addcfg (3, 4, 1, 1, 36, 3000000); addcfg (4, 4, 1, 1, 36, 3000000); addcfg (5, 3, 1, 1, 36, 3000000);
		addcfg (2, 2, 2, 2, 36, 3000000); addcfg (2, 2, 2, 3, 36, 3000000); addcfg (1, 3, 2, 3, 36, 3000000); addcfg (2, 1, 2, 2, 36, 3000000);
		addcfg (2, 3, 3, 3, 7, 1500000); addcfg (1, 2, 1, 2, 36, 100000); addcfg (3, 1, 3, 2, 36, 3000000); addcfg (1, 4, 1, 4, 36, 3000000);
		addcfg (3, 3, 3, 3, 6, 1500000); addcfg (3, 4, 4, 4, 5, 1000000); addcfg (2, 3, 2, 3, 10, 2000000); addcfg (2, 4, 3, 4, 6, 1500000);
	}
	vf_pool_run (16, conv_item, NULL, 0);	/* 2^14 boundary-cell subsets of a 2x66 matrix */
	vf_pool_run (NCFG, item, NULL, 0);
	vf_stat_add (st_dn, vf_stat_get (st_states));
	vf_sample ("dims=2x2,2x3: alphabet = ins/del per cell, clear, roundtrip, realloc, copy, copyrows(4 vectors), copycols(8), *_opt into empty destination, copy_filled (3 maps), both directions where dimensions allow");
	vf_finish ();
	return 0;
}
