/* bfs.h — generic explicit-state explorer by history replay (DESIGN.md §3.1).
 *
 * A state is represented by the operation history that reaches it (library objects are not
 * copyable): expanding a state replays its history on a fresh world and applies one more enabled
 * operation; states are deduplicated by a 128-bit digest of the concrete state + model state.
 * Guards: the prefix replay must reproduce the parent's digest (replay divergence = machinery
 * error); the first `audits` merges are audited (equal digests must have equal successor digests).
 * The oracle runs inside apply() (check=1 only for the last operation of a history).
 */
#ifndef VF_BFS_H
#define VF_BFS_H
#include "vf.h"

#define BFS_MAXD 40
typedef struct { uint8_t len; uint16_t ops[BFS_MAXD]; } bfs_hist;

typedef struct bfs_sys {
	int	nops;						/* size of the alphabet */
	void	*(*fresh) (void *cfg);				/* fresh world (real objects + model) */
	int	(*enabled) (void *w, int op);			/* is op a conforming / in-range call now? */
	void	(*apply) (void *w, int op, int check);		/* real call + model step (+ oracle if check) */
	vf_h128	(*digest) (void *w);
	void	(*destroy) (void *w, int check);		/* epilogue (+ leak oracle if check) */
	void	(*describe) (const bfs_hist *h, void *cfg, char *out, size_t sz);	/* replayable case string */
	int	maxdepth;
	long	statecap;
	long	audits;
	/* results */
	long	states, transitions, executions, merges, selfloops, audited, maxdepth_seen;
	int	capped;						/* 1 state cap, 2 depth cap, 3 deadline */
} bfs_sys;

typedef struct { vf_h128 d; bfs_hist h; } bfs_node;
typedef struct { bfs_node *q; long nq, capq; long *idx; size_t cap; } bfs_tab;

static long bfs_tab_find (bfs_tab *b, vf_h128 d)
{
	size_t i = (size_t) (d.a & (b->cap - 1));
	while (b->idx[i] >= 0) {
		bfs_node *nd = &b->q[b->idx[i]];
		if (nd->d.a == d.a && nd->d.b == d.b) return b->idx[i];
		i = (i + 1) & (b->cap - 1);
	}
	return -1;
}
static void bfs_tab_rehash (bfs_tab *b, size_t ncap)
{
	long j;
	free (b->idx);
	b->cap = ncap;
	b->idx = malloc (sizeof (long) * ncap);
	memset (b->idx, 0xff, sizeof (long) * ncap);
	for (j = 0; j < b->nq; j++) {
		size_t i = (size_t) (b->q[j].d.a & (b->cap - 1));
		while (b->idx[i] >= 0) i = (i + 1) & (b->cap - 1);
		b->idx[i] = j;
	}
}
static long bfs_tab_add (bfs_tab *b, vf_h128 d, const bfs_hist *h)
{
	size_t i;
	if (b->nq == b->capq) { b->capq = b->capq ? b->capq * 2 : 1024; b->q = realloc (b->q, sizeof (bfs_node) * (size_t) b->capq); }
	if ((size_t) b->nq * 10 >= b->cap * 6) bfs_tab_rehash (b, b->cap * 2);
	b->q[b->nq].d = d; b->q[b->nq].h = *h;
	i = (size_t) (d.a & (b->cap - 1));
	while (b->idx[i] >= 0) i = (i + 1) & (b->cap - 1);
	b->idx[i] = b->nq;
	return b->nq++;
}

/* replay h on a fresh world; oracle on the last op only. pre receives the digest before the last op. */
static vf_h128 bfs_exec (bfs_sys *s, void *cfg, const bfs_hist *h, vf_h128 *pre, int *last_enabled)
{
	void *w;
	vf_h128 d;
	int i;
	if (s->describe) s->describe (h, cfg, vf_slot (), VF_SLOT_LEN);
	s->executions++;
	w = s->fresh (cfg);
	if (last_enabled) *last_enabled = 1;
	for (i = 0; i < h->len; i++) {
		if (i == h->len - 1) {
			if (pre) *pre = s->digest (w);
			if (last_enabled && !s->enabled (w, h->ops[i])) { *last_enabled = 0; break; }
		}
		s->apply (w, h->ops[i], i == h->len - 1);
	}
	if (h->len == 0 && pre) *pre = s->digest (w);
	d = s->digest (w);
	s->destroy (w, 1);
	return d;
}

static void bfs_run (bfs_sys *s, void *cfg, const char *machinery_tag)
{
	bfs_tab b;
	bfs_hist h0;
	long cur;
	memset (&b, 0, sizeof b);
	b.cap = 1 << 12; b.idx = malloc (sizeof (long) * b.cap); memset (b.idx, 0xff, sizeof (long) * b.cap);
	memset (&h0, 0, sizeof h0);
	s->states = s->transitions = s->executions = s->merges = s->selfloops = s->audited = s->maxdepth_seen = 0; s->capped = 0;
	bfs_tab_add (&b, bfs_exec (s, cfg, &h0, NULL, NULL), &h0);
	for (cur = 0; cur < b.nq; cur++) {
		bfs_hist h = b.q[cur].h;
		int op;
		if (h.len >= s->maxdepth || h.len >= BFS_MAXD - 1) { s->capped = s->capped ? s->capped : 2; continue; }
		if (vf_deadline_hit ()) { s->capped = 3; break; }
		{	/* which operations are enabled here: ask a replayed world */
			void *w = s->fresh (cfg);
			int i;
			unsigned char *en = malloc ((size_t) s->nops);
			for (i = 0; i < h.len; i++) s->apply (w, h.ops[i], 0);
			for (op = 0; op < s->nops; op++) en[op] = (unsigned char) s->enabled (w, op);
			s->destroy (w, 0);
			for (op = 0; op < s->nops; op++) {
				bfs_hist h2 = h;
				vf_h128 pre, d;
				long at;
				if (!en[op]) continue;
				h2.ops[h2.len++] = (uint16_t) op;
				d = bfs_exec (s, cfg, &h2, &pre, NULL);
				s->transitions++;
				if (pre.a != b.q[cur].d.a || pre.b != b.q[cur].d.b) {
					char cs[VF_SLOT_LEN];
					if (s->describe) s->describe (&h2, cfg, cs, sizeof cs); else cs[0] = 0;
					vf_viol ("MACHINERY", "kind=replay-divergence", "%s %s", machinery_tag, cs);
				}
				if (d.a == b.q[cur].d.a && d.b == b.q[cur].d.b) { s->selfloops++; continue; }
				at = bfs_tab_find (&b, d);
				if (at >= 0) {
					s->merges++;
					if (s->audited < s->audits && b.q[at].h.len < BFS_MAXD - 2 && h2.len < BFS_MAXD - 2) {
						int o2;
						s->audited++;
						for (o2 = 0; o2 < s->nops; o2++) {
							bfs_hist a1 = b.q[at].h, a2 = h2;
							vf_h128 d1, d2;
							int e1, e2;
							a1.ops[a1.len++] = (uint16_t) o2; a2.ops[a2.len++] = (uint16_t) o2;
							d1 = bfs_exec (s, cfg, &a1, NULL, &e1);
							d2 = bfs_exec (s, cfg, &a2, NULL, &e2);
							if (e1 != e2 || (e1 && (d1.a != d2.a || d1.b != d2.b))) {
								char cs[VF_SLOT_LEN];
								if (s->describe) s->describe (&a2, cfg, cs, sizeof cs); else cs[0] = 0;
								vf_viol ("MACHINERY", "kind=merge-audit-mismatch", "%s %s", machinery_tag, cs);
							}
						}
					}
					continue;
				}
				if (b.nq >= s->statecap) { s->capped = 1; continue; }
				bfs_tab_add (&b, d, &h2);
				if (h2.len > s->maxdepth_seen) s->maxdepth_seen = h2.len;
			}
			free (en);
		}
	}
	s->states = b.nq;
	free (b.q); free (b.idx);
}

#endif
