/* vf.h — common support for the /verif harnesses (worker pool, shared counters,
 * violation/sample channels, hashing, allocation tracker interface).
 *
 * Output protocol of every harness (stdout, parsed by bin/check):
 *   STAT <key> <integer>          measured counter (summed over workers)
 *   OUTCOME <name> <integer>      histogram of distinct observed outcomes
 *   SAMPLE <text>                 an actual explored case, written out
 *   VIOL <prop> <signature> :: <case>   property violation; <case> is replayable with --replay
 *   INCOMPLETE <text>             a cap / deadline / aborted item (=> exhaustive:false)
 *   NOTE <text>
 *   DONE                          the harness terminated normally
 */
#ifndef VF_H
#define VF_H
#include <stdint.h>
#include <stddef.h>
#include <stdio.h>
#include <stdlib.h>
#include <string.h>

#define VF_MAX_STATS    64
#define VF_MAX_OUTCOMES 256
#define VF_MAX_SIGS     1024
#define VF_CASES_PER_SIG 16
#define VF_VIOL_LEN     1024
#define VF_MAX_SAMPLES  24
#define VF_SLOT_LEN     1024
#define VF_MAX_WORKERS  64

/* ---- run-wide (shared between forked workers) ------------------------------ */
void	vf_init (int argc, char **argv);	/* parses common options, maps the shared area */
int	vf_nworkers (void);
int	vf_tier_thorough (void);		/* 1 if --tier thorough */
const char *vf_replay_case (void);		/* non-NULL if --replay <case> was given */
const char *vf_prop (void);			/* --prop <ID> or "" */
const char *vf_opt (const char *name, const char *dflt);	/* --name value */
long	vf_opt_long (const char *name, long dflt);
double	vf_deadline_left (void);		/* seconds until the global deadline (--deadline s) */
int	vf_deadline_hit (void);

int	vf_stat_id (const char *name);		/* register before vf_pool_run */
void	vf_stat_add (int id, long v);
long	vf_stat_get (int id);
void	vf_outcome (const char *name, long v);	/* dynamic histogram */
void	vf_sample (const char *fmt, ...) __attribute__((format(printf,1,2)));
void	vf_viol (const char *prop, const char *sig, const char *casefmt, ...) __attribute__((format(printf,3,4)));
void	vf_incomplete (const char *fmt, ...) __attribute__((format(printf,1,2)));
void	vf_note (const char *fmt, ...) __attribute__((format(printf,1,2)));
long	vf_nviol (void);

/* per-worker "what am I executing right now" slot, used to attribute crashes.
 * The harness writes a replayable case string into it before each risky execution. */
char	*vf_slot (void);			/* VF_SLOT_LEN bytes, this worker's; each call counts as a heartbeat */
void	vf_lib_enter (void);			/* bracket library calls: a stall outside them is a slow oracle (reported as MACHINERY, */
void	vf_lib_leave (void);			/* never as a hang of the library); harnesses that never call these keep the old rule */
#define VF_LIB(x)	({ vf_lib_enter (); __typeof__ (x) vf_r_ = (x); vf_lib_leave (); vf_r_; })
void	vf_heartbeat (void);			/* long loops without slot updates call this so they are not taken for a hang */
void	vf_slot_set_prop (const char *prop);	/* property a crash in this worker is attributed to */

/* run fn(item) for item in [0,nitems) on the worker pool; a worker that dies is
 * turned into a VIOL (kind=crash) carrying its slot, the item is marked aborted and a
 * fresh worker continues with the next item. item_timeout_s: watchdog per item (0 = none). */
typedef void (*vf_item_fn) (long item, void *arg);
void	vf_pool_run (long nitems, vf_item_fn fn, void *arg, int item_timeout_s);

/* run fn once in a forked child, report how it ended. returns 0 ok, >0 signal number,
 * -1 timeout, -2 nonzero exit. asan_kind/asan_func receive the parsed ASan report if any. */
int	vf_run_isolated (vf_item_fn fn, long item, void *arg, int timeout_s, char *asan_kind, char *asan_func, size_t sz);

void	vf_finish (void);			/* prints STAT/OUTCOME/SAMPLE/VIOL lines and DONE */

/* ---- hashing ------------------------------------------------------------------ */
typedef struct { uint64_t a, b; } vf_h128;
static inline uint64_t vf_mix64 (uint64_t x)
{
	x ^= x >> 33; x *= 0xff51afd7ed558ccdULL; x ^= x >> 33; x *= 0xc4ceb9fe1a85ec53ULL; x ^= x >> 33;
	return x;
}
static inline void vf_h_init (vf_h128 *h) { h->a = 0x9e3779b97f4a7c15ULL; h->b = 0xc2b2ae3d27d4eb4fULL; }
static inline void vf_h_u64 (vf_h128 *h, uint64_t v)
{
	h->a = vf_mix64 (h->a ^ v) + 0x632be59bd9b4e019ULL;
	h->b = vf_mix64 (h->b + v * 0x9fb21c651e98df25ULL) ^ (h->a << 1);
}
static inline void vf_h_bytes (vf_h128 *h, const void *p, size_t n)
{
	const unsigned char *c = (const unsigned char *) p;
	uint64_t w;
	vf_h_u64 (h, (uint64_t) n);
	while (n >= 8) { memcpy (&w, c, 8); vf_h_u64 (h, w); c += 8; n -= 8; }
	if (n) { w = 0; memcpy (&w, c, n); vf_h_u64 (h, w); }
}

/* ---- 128-bit digest set (open addressing), used by the explicit-state explorers -- */
typedef struct { vf_h128 *tab; size_t cap, n; } vf_set;
void	vf_set_init (vf_set *s, size_t cap_pow2);
int	vf_set_add (vf_set *s, vf_h128 h);	/* 1 if newly added, 0 if present */
long	vf_set_find (vf_set *s, vf_h128 h);	/* index or -1 */
void	vf_set_free (vf_set *s);

/* ---- allocation tracker (only in the "trk" variant: linked with -Wl,--wrap=...) ---- */
#ifdef VF_TRK
uint64_t vf_trk_mark (void);			/* serial number; blocks allocated later have larger serials */
long	vf_trk_live_since (uint64_t mark, void **first);	/* number of live blocks allocated after mark */
long	vf_trk_old_freed (void);		/* blocks allocated before the last mark that were freed since */
long	vf_trk_badfree_count (void);		/* frees of non-live pointers seen so far (they are not passed on) */
int	vf_trk_is_live (const void *p);
size_t	vf_trk_size (const void *p);		/* size of live block starting at p, or 0 */
uint64_t vf_trk_serial (const void *p);	/* serial of live block starting at p, or 0 */
#endif

#endif /* VF_H */
