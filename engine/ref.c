/* ref.c — reference models (see ref.h). Deliberately simple and slow. */
#include "ref.h"
#include <stdlib.h>
#include <string.h>
#include <stdio.h>

/* ------------------------------------------------------------------ GF(2^m) */
unsigned gfr_poly (int m) { return m == 4 ? 0x13u : 0x11du; }

unsigned gfr_mul (int m, unsigned a, unsigned b)
{
	unsigned r = 0, poly = gfr_poly (m), top = 1u << m;
	while (b) {
		if (b & 1) r ^= a;
		b >>= 1;
		a <<= 1;
		if (a & top) a ^= poly;
	}
	return r;
}
unsigned gfr_inv (int m, unsigned a)
{
	unsigned b, q = 1u << m;
	for (b = 1; b < q; b++) if (gfr_mul (m, a, b) == 1) return b;
	return 0;
}
unsigned gfr_exp (int m, unsigned e)
{
	unsigned r = 1;
	while (e--) r = gfr_mul (m, r, 2);
	return r;
}
int gfr_log (int m, unsigned a)
{
	unsigned r = 1, q = (1u << m) - 1;
	int e;
	for (e = 0; e < (int) q; e++) { if (r == a) return e; r = gfr_mul (m, r, 2); }
	return -1;
}

/* table cache of gfr_mul (filled from the shift-and-reduce definition on first use), only to speed the
 * reference generator up */
static unsigned char gfr_tab8[256][256], gfr_tab4[16][16];
static int gfr_tab_ready;
static inline unsigned gfr_mulf (int m, unsigned a, unsigned b)
{
	if (!gfr_tab_ready) {
		unsigned x, y;
		for (x = 0; x < 256; x++) for (y = 0; y < 256; y++) gfr_tab8[x][y] = (unsigned char) gfr_mul (8, x, y);
		for (x = 0; x < 16; x++) for (y = 0; y < 16; y++) gfr_tab4[x][y] = (unsigned char) gfr_mul (4, x, y);
		gfr_tab_ready = 1;
	}
	return m == 8 ? gfr_tab8[a & 255][b & 255] : gfr_tab4[a & 15][b & 15];
}

/* ------------------------------------------------------------------ RS generator */
int rsr_generator (int m, int k, int n, unsigned char *G)
{
	/* V: n x k Vandermonde on points p_0 = 0, p_j = x^(j-1); A = inverse of top k x k; G = V*A */
	unsigned char *V = malloc ((size_t) n * k), *A = malloc ((size_t) k * k), *M = malloc ((size_t) k * k);
	int i, j, c, ret = 0;
	for (i = 0; i < n; i++) {
		unsigned p = i == 0 ? 0 : gfr_exp (m, (unsigned) (i - 1)), v = 1;
		for (c = 0; c < k; c++) { V[i * k + c] = (unsigned char) v; v = gfr_mulf (m, v, p); }
	}
	memcpy (M, V, (size_t) k * k);
	memset (A, 0, (size_t) k * k);
	for (i = 0; i < k; i++) A[i * k + i] = 1;
	/* Gauss-Jordan on [M | A] */
	for (c = 0; c < k; c++) {
		int piv = -1;
		unsigned inv;
		for (i = c; i < k; i++) if (M[i * k + c]) { piv = i; break; }
		if (piv < 0) { ret = -1; goto out; }
		if (piv != c)
			for (j = 0; j < k; j++) {
				unsigned char t;
				t = M[c * k + j]; M[c * k + j] = M[piv * k + j]; M[piv * k + j] = t;
				t = A[c * k + j]; A[c * k + j] = A[piv * k + j]; A[piv * k + j] = t;
			}
		inv = gfr_inv (m, M[c * k + c]);
		for (j = 0; j < k; j++) { M[c * k + j] = (unsigned char) gfr_mulf (m, M[c * k + j], inv); A[c * k + j] = (unsigned char) gfr_mulf (m, A[c * k + j], inv); }
		for (i = 0; i < k; i++) {
			unsigned f = M[i * k + c];
			if (i == c || !f) continue;
			for (j = 0; j < k; j++) {
				M[i * k + j] ^= (unsigned char) gfr_mulf (m, f, M[c * k + j]);
				A[i * k + j] ^= (unsigned char) gfr_mulf (m, f, A[c * k + j]);
			}
		}
	}
	for (i = 0; i < n; i++)
		for (j = 0; j < k; j++) {
			unsigned s = 0;
			for (c = 0; c < k; c++) s ^= gfr_mulf (m, V[i * k + c], A[c * k + j]);
			G[i * k + j] = (unsigned char) s;
		}
out:
	free (V); free (A); free (M);
	return ret;
}

void rsr_encode_symbol (int m, int k, const unsigned char *Grow, unsigned char *const *src, unsigned char *out, size_t len)
{
	size_t b;
	int i;
	for (b = 0; b < len; b++) {
		unsigned acc = 0;
		for (i = 0; i < k; i++) {
			unsigned c = Grow[i], v = src[i][b];
			if (m == 8) acc ^= gfr_mulf (8, c, v);
			else acc ^= (gfr_mulf (4, c, v >> 4) << 4) | gfr_mulf (4, c, v & 15);
		}
		out[b] = (unsigned char) acc;
	}
}

/* ------------------------------------------------------------------ RFC 5170 PRNG */
void pmr_seed (pmr_t *g, uint64_t s) { g->seed = s; }
uint64_t pmr_next (pmr_t *g)
{
	g->seed = (g->seed * (uint64_t) 16807) % (uint64_t) 0x7FFFFFFF;
	return g->seed;
}
uint64_t pmr_rand (pmr_t *g, uint64_t maxv)
{
	uint64_t s = pmr_next (g);
	return (uint64_t) ((double) s * (double) maxv / (double) 0x7FFFFFFF);
}

/* ------------------------------------------------------------------ bit matrices */
bitmat *bm_new (int rows, int cols)
{
	bitmat *m = malloc (sizeof *m);
	m->rows = rows; m->cols = cols; m->W = (cols + 63) / 64;
	if (m->W == 0) m->W = 1;
	m->w = calloc ((size_t) (rows ? rows : 1) * m->W, sizeof (uint64_t));
	m->sp_ptr = m->sp_col = m->sp_cptr = m->sp_row = NULL;
	return m;
}
void bm_drop_index (bitmat *m) { free (m->sp_ptr); free (m->sp_col); free (m->sp_cptr); free (m->sp_row); m->sp_ptr = m->sp_col = m->sp_cptr = m->sp_row = NULL; }
void bm_free (bitmat *m) { if (m) { bm_drop_index (m); free (m->w); free (m); } }

/* ------------------------------------------------------------------ RFC 5170 §6.2 */
bitmat *rfc5170_H (int k, int n, int N1, uint64_t seed, int *extra_added)
{
	int r = n - k, i, j, h, t, added = 0;
	long total = (long) N1 * k;
	int *u = malloc (sizeof (int) * (size_t) (total > 0 ? total : 1));
	bitmat *H = bm_new (r, n);
	pmr_t g;
	pmr_seed (&g, seed);
	for (h = (int) total - 1; h >= 0; h--) u[h] = h % r;
	t = 0;
	for (j = 0; j < k; j++) {
		for (h = 0; h < N1; h++) {
			long ii;
			for (ii = t; ii < total && bm_get (H, u[ii], j); ii++) ;
			if (ii < total) {
				do {
					ii = t + (long) pmr_rand (&g, (uint64_t) (total - t));
				} while (bm_get (H, u[ii], j));
				bm_set (H, u[ii], j);
				u[ii] = u[t];
				t++;
			} else {
				do {
					i = (int) pmr_rand (&g, (uint64_t) r);
				} while (bm_get (H, i, j));
				bm_set (H, i, j);
			}
		}
	}
	free (u);
	/* rows with fewer than two 1s in the left part */
	for (i = 0; i < r; i++) {
		int deg = 0, only = -1;
		for (j = 0; j < k; j++) if (bm_get (H, i, j)) { deg++; only = j; }
		if (deg == 0) {
			j = (int) pmr_rand (&g, (uint64_t) k);
			bm_set (H, i, j);
			only = j; deg = 1; added++;
		}
		if (deg == 1 && k > 1) {	/* for k == 1 the RFC loop cannot terminate; same guard as every implementation */
			do {
				j = (int) pmr_rand (&g, (uint64_t) k);
			} while (j == only);
			bm_set (H, i, j);
			added++;
		}
	}
	/* staircase */
	for (i = 0; i < r; i++) {
		bm_set (H, i, k + i);
		if (i > 0) bm_set (H, i, k + i - 1);
	}
	if (extra_added) *extra_added = added > 0;
	return H;
}

/* ------------------------------------------------------------------ GF(2) erasure algebra */
/* the definition, word-parallel: repeat { every row with exactly one unknown entry makes it known } until nothing moves */
static void gf2_peel_dense (const bitmat *H, uint64_t *known)
{
	int progress = 1, r, w;
	while (progress) {
		progress = 0;
		for (r = 0; r < H->rows; r++) {
			const uint64_t *row = bm_row (H, r);
			int cnt = 0, pos = -1;
			for (w = 0; w < H->W && cnt < 2; w++) {
				uint64_t x = row[w] & ~known[w];
				if (x) {
					cnt += __builtin_popcountll (x);
					pos = w * 64 + __builtin_ctzll (x);
				}
			}
			if (cnt == 1) { known[pos >> 6] |= (uint64_t) 1 << (pos & 63); progress = 1; }
		}
	}
}

/* row and column lists of a bit matrix */
void bm_build_index (bitmat *H)
{
	int r, j, c;
	if (H->sp_ptr) return;
	{
		long nnz = 0; int w, *fill;
		for (r = 0; r < H->rows; r++) for (w = 0; w < H->W; w++) nnz += __builtin_popcountll (bm_row (H, r)[w]);
		H->sp_ptr = malloc (sizeof (int) * (size_t) (H->rows + 1));
		H->sp_col = malloc (sizeof (int) * (size_t) (nnz ? nnz : 1));
		H->sp_cptr = calloc ((size_t) (H->W * 64 + 2), sizeof (int));
		H->sp_row = malloc (sizeof (int) * (size_t) (nnz ? nnz : 1));
		nnz = 0;
		for (r = 0; r < H->rows; r++) {
			H->sp_ptr[r] = (int) nnz;
			for (w = 0; w < H->W; w++) { uint64_t x = bm_row (H, r)[w]; while (x) { c = w * 64 + __builtin_ctzll (x); H->sp_col[nnz++] = c; H->sp_cptr[c + 1]++; x &= x - 1; } }
		}
		H->sp_ptr[H->rows] = (int) nnz;
		for (c = 0; c < H->W * 64; c++) H->sp_cptr[c + 1] += H->sp_cptr[c];
		fill = malloc (sizeof (int) * (size_t) (H->W * 64 + 1));
		memcpy (fill, H->sp_cptr, sizeof (int) * (size_t) (H->W * 64 + 1));
		for (r = 0; r < H->rows; r++) for (j = H->sp_ptr[r]; j < H->sp_ptr[r + 1]; j++) H->sp_row[fill[H->sp_col[j]]++] = r;
		free (fill);
	}
}

/* the same fixpoint with a work list over a row/column index, for matrices where dense passes per received symbol
 * would cost minutes: count the unknown entries of every row; a row with exactly one makes it known, which lowers
 * the count of every row of that column, and so on. The least fixpoint of a monotone rule does not depend on the
 * order in which the rule is applied, so both versions compute the same set; gf2_peel_selfcheck() compares them. */
static void gf2_peel_sparse (bitmat *H, uint64_t *known)
{
	int r, j, c, *cnt, *stack, sp = 0;
	bm_build_index (H);
	cnt = malloc (sizeof (int) * (size_t) (H->rows + 1));
	stack = malloc (sizeof (int) * (size_t) (H->rows + 1));
	for (r = 0; r < H->rows; r++) {
		int n = 0;
		for (j = H->sp_ptr[r]; j < H->sp_ptr[r + 1]; j++) { c = H->sp_col[j]; if (!((known[c >> 6] >> (c & 63)) & 1)) n++; }
		cnt[r] = n;
		if (n == 1) stack[sp++] = r;
	}
	while (sp > 0) {
		r = stack[--sp];
		if (cnt[r] != 1) continue;	/* resolved through another row meanwhile */
		for (j = H->sp_ptr[r]; j < H->sp_ptr[r + 1]; j++) { c = H->sp_col[j]; if (!((known[c >> 6] >> (c & 63)) & 1)) break; }
		known[c >> 6] |= (uint64_t) 1 << (c & 63);
		for (j = H->sp_cptr[c]; j < H->sp_cptr[c + 1]; j++) { int q = H->sp_row[j]; if (--cnt[q] == 1) stack[sp++] = q; }
	}
	free (cnt); free (stack);
}

void gf2_peel (const bitmat *H, uint64_t *known)
{
	if ((long) H->rows * H->W > 8192) gf2_peel_sparse ((bitmat *) H, known);
	else gf2_peel_dense (H, known);
}

/* both implementations on the same input; returns 0 when they agree */
int gf2_peel_selfcheck (const bitmat *H, const uint64_t *known)
{
	size_t nb = sizeof (uint64_t) * (size_t) H->W;
	uint64_t *a = malloc (nb), *b = malloc (nb);
	int d;
	memcpy (a, known, nb); memcpy (b, known, nb);
	gf2_peel_dense (H, a); gf2_peel_sparse ((bitmat *) H, b);
	d = memcmp (a, b, nb) != 0;
	free (a); free (b);
	return d;
}

static int rank_rows (uint64_t *M, int rows, int W, int cols)
{
	int rank = 0, c, r, w;
	for (c = 0; c < cols && rank < rows; c++) {
		int piv = -1;
		for (r = rank; r < rows; r++) if ((M[(size_t) r * W + (c >> 6)] >> (c & 63)) & 1) { piv = r; break; }
		if (piv < 0) continue;
		if (piv != rank)
			for (w = 0; w < W; w++) { uint64_t t = M[(size_t) piv * W + w]; M[(size_t) piv * W + w] = M[(size_t) rank * W + w]; M[(size_t) rank * W + w] = t; }
		for (r = 0; r < rows; r++)
			if (r != rank && ((M[(size_t) r * W + (c >> 6)] >> (c & 63)) & 1))
				for (w = 0; w < W; w++) M[(size_t) r * W + w] ^= M[(size_t) rank * W + w];
		rank++;
	}
	return rank;
}

int gf2_rank_unknown (const bitmat *H, const uint64_t *known, int *nunknown)
{
	uint64_t *M = malloc (sizeof (uint64_t) * (size_t) (H->rows ? H->rows : 1) * H->W);
	int r, w, nu = 0, rk, c;
	for (r = 0; r < H->rows; r++)
		for (w = 0; w < H->W; w++) M[(size_t) r * H->W + w] = bm_row (H, r)[w] & ~known[w];
	for (c = 0; c < H->cols; c++) if (!((known[c >> 6] >> (c & 63)) & 1)) nu++;
	rk = rank_rows (M, H->rows, H->W, H->cols);
	free (M);
	if (nunknown) *nunknown = nu;
	return rk;
}

int gf2_rank (const bitmat *Min)
{
	uint64_t *M = malloc (sizeof (uint64_t) * (size_t) (Min->rows ? Min->rows : 1) * Min->W);
	int rk;
	memcpy (M, Min->w, sizeof (uint64_t) * (size_t) Min->rows * Min->W);
	rk = rank_rows (M, Min->rows, Min->W, Min->cols);
	free (M);
	return rk;
}

/* ------------------------------------------------------------------ RFC 5052 */
void blk_ref_compute (uint64_t L, uint64_t E, uint64_t B, blk_ref *o)
{
	uint64_t T = L / E + (L % E ? 1 : 0);
	uint64_t N = T / B + (T % B ? 1 : 0);
	o->T = T; o->N = N;
	if (N == 0) { o->A_large = o->A_small = o->I = 0; return; }
	o->A_small = T / N;
	o->A_large = T / N + (T % N ? 1 : 0);
	o->I = T - o->A_small * N;
}
