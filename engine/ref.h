/* ref.h — reference models, written from the mathematical definitions
 * (not from the library code). See DESIGN.md §3.4. */
#ifndef VF_REF_H
#define VF_REF_H
#include <stdint.h>
#include <stddef.h>

/* ---- GF(2^m), m in {4,8}: GF(2)[x]/(x^4+x+1) and GF(2)[x]/(x^8+x^4+x^3+x^2+1) ---- */
unsigned gfr_poly (int m);				/* 0x13 or 0x11d */
unsigned gfr_mul (int m, unsigned a, unsigned b);	/* shift-and-reduce */
unsigned gfr_inv (int m, unsigned a);			/* exhaustive search; a != 0 */
unsigned gfr_exp (int m, unsigned e);			/* x^e */
int	 gfr_log (int m, unsigned a);			/* discrete log base x, a != 0 (exhaustive) */

/* ---- systematic Reed-Solomon generator from the Vandermonde matrix on 0,1,x,x^2,... ----
 * G is n x k (row-major, one field element per byte); rows 0..k-1 are the identity.
 * returns 0 on success, -1 if the top k x k block is singular (cannot happen for distinct points). */
int	rsr_generator (int m, int k, int n, unsigned char *G);
/* encode: out[j][b] = sum_i G[j][i]*src[i][b]; for m=4 every byte carries two elements (nibbles) */
void	rsr_encode_symbol (int m, int k, const unsigned char *Grow, unsigned char *const *src, unsigned char *out, size_t len);

/* ---- RFC 5170 ---- */
typedef struct { uint64_t seed; } pmr_t;
void	 pmr_seed (pmr_t *g, uint64_t s);
uint64_t pmr_next (pmr_t *g);				/* s' = 16807*s mod (2^31-1), 64-bit arithmetic */
uint64_t pmr_rand (pmr_t *g, uint64_t maxv);		/* RFC expression on s' */

/* dense GF(2) matrix: rows x cols bits, row-major, W = words per row */
typedef struct { int rows, cols, W; uint64_t *w; int *sp_ptr, *sp_col, *sp_cptr, *sp_row; /* lazily built row index (large matrices), dropped on any change */ } bitmat;
bitmat	*bm_new (int rows, int cols);
void	 bm_free (bitmat *m);
void	 bm_drop_index (bitmat *m);
void	 bm_build_index (bitmat *m);	/* gf2_peel builds it on first use for large matrices; harnesses that count allocations build it up front */
static inline int  bm_get (const bitmat *m, int r, int c) { return (int) ((m->w[(size_t) r * m->W + (c >> 6)] >> (c & 63)) & 1); }
static inline void bm_set (bitmat *m, int r, int c) { if (m->sp_ptr) bm_drop_index (m); m->w[(size_t) r * m->W + (c >> 6)] |= (uint64_t) 1 << (c & 63); }
static inline void bm_clr (bitmat *m, int r, int c) { if (m->sp_ptr) bm_drop_index (m); m->w[(size_t) r * m->W + (c >> 6)] &= ~((uint64_t) 1 << (c & 63)); }
static inline uint64_t *bm_row (const bitmat *m, int r) { return m->w + (size_t) r * m->W; }

/* H of LDPC-Staircase (k, n, N1, seed) per RFC 5170 §6.2; columns are indexed by ESI
 * (0..k-1 source, k..n-1 repair), rows by equation 0..n-k-1. extra_added (may be NULL)
 * receives 1 if the "at least two 1s per row" step added entries. */
bitmat	*rfc5170_H (int k, int n, int N1, uint64_t seed, int *extra_added);

/* ---- GF(2) erasure algebra on an ESI-indexed parity-check matrix ---- */
/* known: bitset over cols (W words). peel: repeatedly solve rows with exactly one unknown; updates known in place. */
void	gf2_peel (const bitmat *H, uint64_t *known);
int	gf2_peel_selfcheck (const bitmat *H, const uint64_t *known);	/* dense and indexed implementation agree? 0 = yes */
/* rank of the submatrix made of the columns NOT in known; *nunknown receives their number */
int	gf2_rank_unknown (const bitmat *H, const uint64_t *known, int *nunknown);
/* generic rank of a bit matrix (destroys a copy) */
int	gf2_rank (const bitmat *M);

/* ---- RFC 5052 blocking ---- */
typedef struct { uint64_t T, N, A_large, A_small, I; } blk_ref;
void	blk_ref_compute (uint64_t L, uint64_t E, uint64_t B, blk_ref *o);

#endif
