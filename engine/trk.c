/* trk.c — allocation tracker for the "trk" build variant.
 * Linked with -Wl,--wrap=malloc,--wrap=calloc,--wrap=realloc,--wrap=free so that every
 * allocation of the library (of_malloc & co. and raw malloc/free) and of the harness
 * goes through here. Gives exact answers to "which blocks allocated after <mark> are
 * still live" (leak) and "was a non-live pointer freed" (double / foreign free).
 * A free of a non-live pointer is counted and NOT forwarded to libc (so the run goes on). */
#define VF_TRK
#include "vf.h"
#include <string.h>

void *__real_malloc (size_t);
void *__real_calloc (size_t, size_t);
void *__real_realloc (void *, size_t);
void __real_free (void *);

typedef struct { void *p; size_t sz; uint64_t serial; } ent;
static ent	*T;
static size_t	cap, cnt, tomb;
static uint64_t	serial = 1;
static long	badfree;
static uint64_t	g_mark;
static long	win_alloc, win_free_new, win_free_old;
#define TOMB ((void *) 1)

static void grow (void)
{
	size_t ncap = cap ? (cnt * 4 >= cap ? cap * 2 : cap) : (1 << 16), i;
	ent *N = __real_calloc (ncap, sizeof (ent));
	if (!N) { fprintf (stderr, "trk: out of memory\n"); abort (); }
	for (i = 0; i < cap; i++)
		if (T[i].p && T[i].p != TOMB) {
			size_t j = (size_t) (vf_mix64 ((uint64_t) (uintptr_t) T[i].p) & (ncap - 1));
			while (N[j].p) j = (j + 1) & (ncap - 1);
			N[j] = T[i];
		}
	__real_free (T);
	T = N; cap = ncap; tomb = 0;
}
static void add (void *p, size_t sz)
{
	size_t j;
	if (!p) return;
	if ((cnt + tomb) * 10 >= cap * 6) grow ();
	j = (size_t) (vf_mix64 ((uint64_t) (uintptr_t) p) & (cap - 1));
	while (T[j].p && T[j].p != TOMB) j = (j + 1) & (cap - 1);
	if (T[j].p == TOMB) tomb--;
	T[j].p = p; T[j].sz = sz; T[j].serial = serial++;
	cnt++; win_alloc++;
}
static ent *find (const void *p)
{
	size_t j;
	if (!cap || !p) return NULL;
	j = (size_t) (vf_mix64 ((uint64_t) (uintptr_t) p) & (cap - 1));
	while (T[j].p) {
		if (T[j].p == p) return &T[j];
		j = (j + 1) & (cap - 1);
	}
	return NULL;
}
static int del (void *p)
{
	ent *e = find (p);
	if (!e) return 0;
	if (e->serial >= g_mark) win_free_new++; else win_free_old++;
	e->p = TOMB; e->sz = 0; e->serial = 0;
	cnt--; tomb++;
	return 1;
}

/* what malloc returns is not zero and what free takes away does not keep its content: both are made deterministic
 * (0xA5 / 0xDD), so that a value read from uninitialised or released heap memory is wrong on every run and not only when
 * the allocator happens to recycle a dirty block (AddressSanitizer does the same for the asan variant) */
#define POISON_MAX ((size_t) 4 << 20)	/* huge blocks (parameter-limit tests allocate gigabytes they never touch): first 4 MiB only */
void *__wrap_malloc (size_t n) { void *p = __real_malloc (n); if (p && n) memset (p, 0xA5, n < POISON_MAX ? n : POISON_MAX); add (p, n); return p; }
void *__wrap_calloc (size_t a, size_t b) { void *p = __real_calloc (a, b); add (p, a * b); return p; }
void *__wrap_realloc (void *o, size_t n)
{
	void *p;
	size_t osz = 0;
	ent *e = o ? find (o) : NULL;
	if (o && !e) { badfree++; return NULL; }
	if (e) osz = e->sz;
	p = __real_realloc (o, n);
	if (n == 0) { if (o) del (o); if (p) add (p, 0); return p; }
	if (p) { if (o) del (o); if (n > osz) memset ((char *) p + osz, 0xA5, n - osz < POISON_MAX ? n - osz : POISON_MAX); add (p, n); }
	return p;
}
void __wrap_free (void *p)
{
	ent *e;
	if (!p) return;
	e = find (p);
	if (e && e->sz) memset (p, 0xDD, e->sz < POISON_MAX ? e->sz : POISON_MAX);
	if (!del (p)) { badfree++; return; }
	__real_free (p);
}

uint64_t vf_trk_mark (void) { g_mark = serial; win_alloc = win_free_new = win_free_old = 0; return serial; }
long vf_trk_old_freed (void) { return win_free_old; }
long vf_trk_live_since (uint64_t mark, void **first)
{
	size_t i;
	long n = 0;
	uint64_t best = ~(uint64_t) 0;
	if (first) *first = NULL;
	if (mark == g_mark && win_alloc == win_free_new) return 0;
	for (i = 0; i < cap; i++)
		if (T[i].p && T[i].p != TOMB && T[i].serial >= mark) {
			n++;
			if (first && T[i].serial < best) { best = T[i].serial; *first = T[i].p; }
		}
	return n;
}
long vf_trk_badfree_count (void) { return badfree; }
int vf_trk_is_live (const void *p) { return find (p) != NULL; }
size_t vf_trk_size (const void *p) { ent *e = find (p); return e ? e->sz : 0; }
uint64_t vf_trk_serial (const void *p) { ent *e = find (p); return e ? e->serial : 0; }
