/* vf.c — worker pool + shared result area for the /verif harnesses. */
#define _GNU_SOURCE
#include "vf.h"
#include <stdarg.h>
#include <stdatomic.h>
#include <unistd.h>
#include <signal.h>
#include <errno.h>
#include <fcntl.h>
#include <time.h>
#include <sys/mman.h>
#include <sys/wait.h>
#include <sys/types.h>
#include <sys/resource.h>

struct vf_shared {
	atomic_long	next_item;
	atomic_long	stats[VF_MAX_STATS];
	atomic_int	lock;
	int		n_outcomes;
	char		outcome_name[VF_MAX_OUTCOMES][64];
	atomic_long	outcome_cnt[VF_MAX_OUTCOMES];
	atomic_long	n_viol;			/* total reported */
	int		n_sigs;
	struct { char key[240]; atomic_long count; atomic_int ncases; char cases[VF_CASES_PER_SIG][VF_VIOL_LEN]; } sig[VF_MAX_SIGS];
	atomic_long	sig_overflow;
	atomic_int	n_samples;
	char		sample[VF_MAX_SAMPLES][VF_VIOL_LEN];
	atomic_int	n_incomplete;
	char		incomplete[64][256];
	atomic_int	n_notes;
	char		note[64][256];
	char		slot[VF_MAX_WORKERS + 1][VF_SLOT_LEN];
	char		slot_prop[VF_MAX_WORKERS + 1][16];
	atomic_long	slot_item[VF_MAX_WORKERS + 1];
	/* one cache line per worker, written by its owner only (relaxed): heartbeat is bumped by vf_slot()/vf_heartbeat()/
	 * vf_lib_enter()/vf_lib_leave(), a worker that stops bumping is stalled; in_lib says where:
	 * 0 harness never says, 1 inside a library call, 2 in harness / reference-model code */
	struct { _Alignas (64) atomic_long heartbeat; atomic_int in_lib; } wk[VF_MAX_WORKERS + 1];
};

static struct vf_shared	*S;
static int	g_argc;
static char	**g_argv;
static int	g_nworkers = 16;
static int	g_thorough = 0;
static const char *g_replay = NULL;
static const char *g_prop = "";
static int	g_me = VF_MAX_WORKERS;	/* slot index of this process (supervisor uses the last one) */
static char	g_stat_name[VF_MAX_STATS][48];
static int	g_nstats = 0;
static double	g_deadline = 0;		/* absolute, CLOCK_MONOTONIC seconds; 0 = none */

static double now_s (void)
{
	struct timespec ts;
	clock_gettime (CLOCK_MONOTONIC, &ts);
	return ts.tv_sec + ts.tv_nsec * 1e-9;
}

static void lock (void)   { int e = 0; while (!atomic_compare_exchange_weak (&S->lock, &e, 1)) { e = 0; } }
static void unlock (void) { atomic_store (&S->lock, 0); }

const char *vf_opt (const char *name, const char *dflt)
{
	int i;
	for (i = 1; i + 1 < g_argc; i++)
		if (g_argv[i][0] == '-' && g_argv[i][1] == '-' && !strcmp (g_argv[i] + 2, name))
			return g_argv[i + 1];
	return dflt;
}
long vf_opt_long (const char *name, long dflt)
{
	const char *v = vf_opt (name, NULL);
	return v ? strtol (v, NULL, 0) : dflt;
}

void vf_init (int argc, char **argv)
{
	g_argc = argc; g_argv = argv;
	S = mmap (NULL, sizeof (*S), PROT_READ | PROT_WRITE, MAP_SHARED | MAP_ANONYMOUS, -1, 0);
	if (S == MAP_FAILED) { perror ("mmap"); exit (3); }
	memset (S, 0, sizeof (*S));
	g_nworkers = (int) vf_opt_long ("workers", 16);
	if (g_nworkers < 1) g_nworkers = 1;
	if (g_nworkers > VF_MAX_WORKERS) g_nworkers = VF_MAX_WORKERS;
	g_thorough = !strcmp (vf_opt ("tier", "quick"), "thorough");
	g_replay = vf_opt ("replay", NULL);
	g_prop = vf_opt ("prop", "");
	{
		long d = vf_opt_long ("deadline", 0);
		if (d > 0) g_deadline = now_s () + (double) d;
	}
	setvbuf (stdout, NULL, _IOLBF, 0);
}

int vf_nworkers (void) { return g_nworkers; }
int vf_tier_thorough (void) { return g_thorough; }
const char *vf_replay_case (void) { return g_replay; }
const char *vf_prop (void) { return g_prop; }
double vf_deadline_left (void) { return g_deadline == 0 ? 1e18 : g_deadline - now_s (); }
int vf_deadline_hit (void) { return g_deadline != 0 && now_s () > g_deadline; }

int vf_stat_id (const char *name)
{
	int i;
	for (i = 0; i < g_nstats; i++) if (!strcmp (g_stat_name[i], name)) return i;
	if (g_nstats >= VF_MAX_STATS) { fprintf (stderr, "vf: too many stats\n"); exit (3); }
	snprintf (g_stat_name[g_nstats], sizeof g_stat_name[0], "%s", name);
	return g_nstats++;
}
void vf_stat_add (int id, long v) { atomic_fetch_add (&S->stats[id], v); }
long vf_stat_get (int id) { return atomic_load (&S->stats[id]); }

void vf_outcome (const char *name, long v)
{
	int i, n = S->n_outcomes;
	for (i = 0; i < n; i++)
		if (!strncmp (S->outcome_name[i], name, 63)) { atomic_fetch_add (&S->outcome_cnt[i], v); return; }
	lock ();
	for (i = 0; i < S->n_outcomes; i++)
		if (!strncmp (S->outcome_name[i], name, 63)) break;
	if (i == S->n_outcomes) {
		if (i >= VF_MAX_OUTCOMES) { unlock (); return; }
		snprintf (S->outcome_name[i], 64, "%s", name);
		__sync_synchronize ();
		S->n_outcomes = i + 1;
	}
	unlock ();
	atomic_fetch_add (&S->outcome_cnt[i], v);
}

void vf_sample (const char *fmt, ...)
{
	va_list ap;
	int i = atomic_fetch_add (&S->n_samples, 1);
	if (i >= VF_MAX_SAMPLES) { atomic_store (&S->n_samples, VF_MAX_SAMPLES); return; }
	va_start (ap, fmt);
	vsnprintf (S->sample[i], VF_VIOL_LEN, fmt, ap);
	va_end (ap);
}

void vf_viol (const char *prop, const char *sig, const char *casefmt, ...)
{
	va_list ap;
	char key[240];
	int i, n, c;
	atomic_fetch_add (&S->n_viol, 1);
	snprintf (key, sizeof key, "%s %s", prop, sig);
	n = S->n_sigs;
	for (i = 0; i < n; i++) if (!strcmp (S->sig[i].key, key)) break;
	if (i == n) {
		lock ();
		for (i = 0; i < S->n_sigs; i++) if (!strcmp (S->sig[i].key, key)) break;
		if (i == S->n_sigs) {
			if (i >= VF_MAX_SIGS) { unlock (); atomic_fetch_add (&S->sig_overflow, 1); return; }
			snprintf (S->sig[i].key, sizeof S->sig[i].key, "%s", key);
			__sync_synchronize ();
			S->n_sigs = i + 1;
		}
		unlock ();
	}
	{	/* cases kept per signature: the first 4 occurrences, then the occurrences number 8, 16, 32, ... (a spread over the
		 * exploration: if the first cases depend on what the worker ran before and do not reproduce alone, later ones may) */
		long occ = atomic_fetch_add (&S->sig[i].count, 1) + 1;
		if (occ > 4 && (occ & (occ - 1))) return;
	}
	c = atomic_fetch_add (&S->sig[i].ncases, 1);
	if (c >= VF_CASES_PER_SIG) { atomic_store (&S->sig[i].ncases, VF_CASES_PER_SIG); return; }
	va_start (ap, casefmt);
	vsnprintf (S->sig[i].cases[c], VF_VIOL_LEN, casefmt, ap);
	va_end (ap);
}
long vf_nviol (void) { return atomic_load (&S->n_viol); }

void vf_incomplete (const char *fmt, ...)
{
	va_list ap;
	int i = atomic_fetch_add (&S->n_incomplete, 1);
	if (i >= 64) { atomic_store (&S->n_incomplete, 64); return; }
	va_start (ap, fmt);
	vsnprintf (S->incomplete[i], 256, fmt, ap);
	va_end (ap);
}
void vf_note (const char *fmt, ...)
{
	va_list ap;
	int i = atomic_fetch_add (&S->n_notes, 1);
	if (i >= 64) { atomic_store (&S->n_notes, 64); return; }
	va_start (ap, fmt);
	vsnprintf (S->note[i], 256, fmt, ap);
	va_end (ap);
}

static inline void bump (void) { atomic_store_explicit (&S->wk[g_me].heartbeat, atomic_load_explicit (&S->wk[g_me].heartbeat, memory_order_relaxed) + 1, memory_order_relaxed); }
char *vf_slot (void) { bump (); return S->slot[g_me]; }
void vf_heartbeat (void) { bump (); }
void vf_lib_enter (void) { atomic_store_explicit (&S->wk[g_me].in_lib, 1, memory_order_relaxed); bump (); }
void vf_lib_leave (void) { atomic_store_explicit (&S->wk[g_me].in_lib, 2, memory_order_relaxed); bump (); }
void vf_slot_set_prop (const char *prop) { snprintf (S->slot_prop[g_me], 16, "%s", prop); }

/* ---- ASan report parsing ------------------------------------------------------- */
static void asan_log_path (char *buf, size_t sz, pid_t pid)
{
	const char *dir = getenv ("VF_ASAN_LOGDIR");
	snprintf (buf, sz, "%s/asan.%d", dir ? dir : "/verif/build", (int) pid);
}
static void parse_asan (pid_t pid, char *kind, char *func, size_t sz)
{
	char path[512], line[1024];
	FILE *f;
	kind[0] = func[0] = 0;
	asan_log_path (path, sizeof path, pid);
	f = fopen (path, "r");
	if (!f) return;
	while (fgets (line, sizeof line, f)) {
		char *p;
		if (!kind[0] && (p = strstr (line, "ERROR: AddressSanitizer: "))) {
			char *q;
			p += strlen ("ERROR: AddressSanitizer: ");
			q = p;
			while (*q && *q != ' ' && *q != '\n') q++;
			*q = 0;
			snprintf (kind, sz, "%s", p);
			continue;
		}
		if (kind[0] && !func[0] && (p = strstr (line, " in of_"))) {
			char *q;
			p += 4;
			q = p;
			while (*q && *q != ' ' && *q != '\n') q++;
			*q = 0;
			snprintf (func, sz, "%s", p);
			break;
		}
	}
	fclose (f);
	unlink (path);
}

/* ---- pool --------------------------------------------------------------------- */
static volatile sig_atomic_t g_alarm_item = -1;
static void on_alarm (int s) { (void) s; _exit (97); }

static void worker_main (int me, long nitems, vf_item_fn fn, void *arg, int item_timeout_s)
{
	long it;
	g_me = me;
	signal (SIGALRM, on_alarm);
	/* the library chats on stdout/stderr (OF_PRINT_ERROR, blocking_struct); results travel through the shared area */
	if (!getenv ("VF_KEEP_OUTPUT")) { freopen ("/dev/null", "w", stdout); freopen ("/dev/null", "w", stderr); }
	for (;;) {
		it = atomic_fetch_add (&S->next_item, 1);
		if (it >= nitems) break;
		atomic_store (&S->slot_item[me], it);
		atomic_store (&S->wk[me].in_lib, 0);
		S->slot[me][0] = 0;
		if (item_timeout_s > 0) alarm ((unsigned) item_timeout_s);
		fn (it, arg);
		if (item_timeout_s > 0) alarm (0);
		atomic_store (&S->slot_item[me], -1);
	}
	(void) g_alarm_item;
	fflush (NULL);
	_exit (0);
}

void vf_pool_run (long nitems, vf_item_fn fn, void *arg, int item_timeout_s)
{
	pid_t pids[VF_MAX_WORKERS];
	int i, alive = 0, nw = g_nworkers;
	if (nitems < nw) nw = (int) (nitems > 0 ? nitems : 1);
	atomic_store (&S->next_item, 0);
	fflush (NULL);
	for (i = 0; i < nw; i++) {
		atomic_store (&S->slot_item[i], -1);
		pids[i] = fork ();
		if (pids[i] == 0) worker_main (i, nitems, fn, arg, item_timeout_s);
		if (pids[i] > 0) alive++;
	}
	{
	long last_hb[VF_MAX_WORKERS]; double last_t[VF_MAX_WORKERS];
	double stall_s = getenv ("VF_STALL_S") ? atof (getenv ("VF_STALL_S")) : 180.0;
	int hung[VF_MAX_WORKERS];
	for (i = 0; i < nw; i++) { last_hb[i] = -1; last_t[i] = now_s (); hung[i] = 0; }
	while (alive > 0) {
		int st;
		pid_t p = waitpid (-1, &st, WNOHANG);
		if (p == 0) {
			/* nobody ended: look for a worker whose heartbeat stopped (endless loop inside a library call) */
			double t = now_s ();
			for (i = 0; i < nw; i++) {
				long hb;
				if (pids[i] <= 0) continue;
				hb = atomic_load (&S->wk[i].heartbeat);
				if (hb != last_hb[i]) { last_hb[i] = hb; last_t[i] = t; }
				else if (t - last_t[i] > stall_s && !hung[i]) { hung[i] = 1; kill (pids[i], SIGKILL); }
			}
			usleep (20000);
			continue;
		}
		if (p < 0) { if (errno == EINTR) continue; break; }
		for (i = 0; i < nw; i++) if (pids[i] == p) break;
		if (i == nw) continue;
		alive--;
		if (WIFEXITED (st) && WEXITSTATUS (st) == 0) { pids[i] = -1; continue; }
		if (hung[i]) {
			long it = atomic_load (&S->slot_item[i]);
			hung[i] = 0; last_hb[i] = -1; last_t[i] = now_s ();
			if (atomic_load (&S->wk[i].in_lib) == 2) {
				/* the worker was in harness / reference-model code, not in the library: a slow oracle is the machinery's
				 * problem and says nothing about the property */
				vf_incomplete ("MACHINERY: item %ld abandoned: %.0f s without progress in harness code (not inside a library call); last case: %.150s", it, stall_s, S->slot[i]);
				goto restart_worker;
			}
			vf_viol (S->slot_prop[i][0] ? S->slot_prop[i] : (g_prop[0] ? g_prop : "C00"), "kind=hang", "%s", S->slot[i][0] ? S->slot[i] : "(no case recorded)");
			vf_incomplete ("item %ld aborted: no progress for %.0f s (hang); last case: %.150s", it, stall_s, S->slot[i]);
			goto restart_worker;
		}
		/* abnormal end of worker i */
		{
			long it = atomic_load (&S->slot_item[i]);
			char kind[64], func[128], sig[256];
			parse_asan (p, kind, func, sizeof kind);
			if (WIFEXITED (st) && WEXITSTATUS (st) == 97) {
				vf_incomplete ("item %ld: watchdog after %d s; last case: %.150s", it, item_timeout_s, S->slot[i]);
			} else {
				if (kind[0])
					snprintf (sig, sizeof sig, "kind=asan:%s|func=%s", kind, func[0] ? func : "?");
				else if (WIFSIGNALED (st))
					snprintf (sig, sizeof sig, "kind=signal:%d", WTERMSIG (st));
				else
					snprintf (sig, sizeof sig, "kind=exit:%d", WEXITSTATUS (st));
				vf_viol (S->slot_prop[i][0] ? S->slot_prop[i] : (g_prop[0] ? g_prop : "C00"), sig, "%s", S->slot[i][0] ? S->slot[i] : "(no case recorded)");
				vf_incomplete ("item %ld aborted by a crash (%s)", it, sig);
			}
		}
restart_worker:
		/* restart a worker in the same slot for the remaining items */
		last_t[i] = now_s ();
		if (atomic_load (&S->next_item) < nitems) {
			fflush (NULL);
			atomic_store (&S->slot_item[i], -1);
			pids[i] = fork ();
			if (pids[i] == 0) worker_main (i, nitems, fn, arg, item_timeout_s);
			if (pids[i] > 0) alive++;
		} else pids[i] = -1;
	}
}
}

int vf_run_isolated (vf_item_fn fn, long item, void *arg, int timeout_s, char *asan_kind, char *asan_func, size_t sz)
{
	pid_t p;
	int st;
	if (asan_kind) asan_kind[0] = 0;
	if (asan_func) asan_func[0] = 0;
	fflush (NULL);
	p = fork ();
	if (p == 0) {
		signal (SIGALRM, on_alarm);
		if (!getenv ("VF_KEEP_OUTPUT")) { freopen ("/dev/null", "w", stdout); freopen ("/dev/null", "w", stderr); }
		if (timeout_s > 0) alarm ((unsigned) timeout_s);
		fn (item, arg);
		fflush (NULL);
		_exit (0);
	}
	if (p < 0) return -2;
	while (waitpid (p, &st, 0) < 0 && errno == EINTR) ;
	if (asan_kind && asan_func) parse_asan (p, asan_kind, asan_func, sz);
	if (WIFEXITED (st) && WEXITSTATUS (st) == 0) return 0;
	if (WIFEXITED (st) && WEXITSTATUS (st) == 97) return -1;
	if (WIFSIGNALED (st)) return WTERMSIG (st);
	return -2;
}

void vf_finish (void)
{
	int i;
	long nv = atomic_load (&S->n_viol);
	for (i = 0; i < g_nstats; i++) printf ("STAT %s %ld\n", g_stat_name[i], atomic_load (&S->stats[i]));
	for (i = 0; i < S->n_outcomes; i++) printf ("OUTCOME %s %ld\n", S->outcome_name[i], atomic_load (&S->outcome_cnt[i]));
	for (i = 0; i < atomic_load (&S->n_samples) && i < VF_MAX_SAMPLES; i++) printf ("SAMPLE %s\n", S->sample[i]);
	for (i = 0; i < atomic_load (&S->n_notes) && i < 64; i++) printf ("NOTE %s\n", S->note[i]);
	for (i = 0; i < atomic_load (&S->n_incomplete) && i < 64; i++) printf ("INCOMPLETE %s\n", S->incomplete[i]);
	for (i = 0; i < S->n_sigs; i++) {
		int j, nc = atomic_load (&S->sig[i].ncases);
		printf ("VCOUNT %s %ld\n", S->sig[i].key, atomic_load (&S->sig[i].count));
		for (j = 0; j < nc && j < VF_CASES_PER_SIG; j++) printf ("VIOL %s :: %s\n", S->sig[i].key, S->sig[i].cases[j]);
	}
	printf ("STAT violations_total %ld\n", nv);
	if (atomic_load (&S->sig_overflow)) printf ("INCOMPLETE %ld violations with further distinct signatures beyond the first %d signatures not listed\n", atomic_load (&S->sig_overflow), VF_MAX_SIGS);
	printf ("DONE\n");
	fflush (stdout);
}

/* ---- digest set ---------------------------------------------------------------- */
void vf_set_init (vf_set *s, size_t cap_pow2)
{
	s->cap = cap_pow2; s->n = 0;
	s->tab = calloc (s->cap, sizeof (vf_h128));
	if (!s->tab) { fprintf (stderr, "vf_set: out of memory\n"); exit (3); }
}
static void vf_set_grow (vf_set *s)
{
	vf_set t;
	size_t i;
	vf_set_init (&t, s->cap * 2);
	for (i = 0; i < s->cap; i++)
		if (s->tab[i].a | s->tab[i].b) vf_set_add (&t, s->tab[i]);
	free (s->tab);
	*s = t;
}
int vf_set_add (vf_set *s, vf_h128 h)
{
	size_t i;
	if (!(h.a | h.b)) h.a = 1;
	if (s->n * 10 >= s->cap * 7) vf_set_grow (s);
	i = (size_t) (h.a & (s->cap - 1));
	while (s->tab[i].a | s->tab[i].b) {
		if (s->tab[i].a == h.a && s->tab[i].b == h.b) return 0;
		i = (i + 1) & (s->cap - 1);
	}
	s->tab[i] = h;
	s->n++;
	return 1;
}
long vf_set_find (vf_set *s, vf_h128 h)
{
	size_t i;
	if (!(h.a | h.b)) h.a = 1;
	i = (size_t) (h.a & (s->cap - 1));
	while (s->tab[i].a | s->tab[i].b) {
		if (s->tab[i].a == h.a && s->tab[i].b == h.b) return (long) i;
		i = (i + 1) & (s->cap - 1);
	}
	return -1;
}
void vf_set_free (vf_set *s) { free (s->tab); s->tab = NULL; s->cap = s->n = 0; }
