"""registry.py — which harness runs decide which property (used by bin/check).

Each run: name, src (under harness/), variant (asan | trk | plain), optional lib_defs
(extra -D for the library build), exclude (library objects replaced by TU inclusion in the
harness), args / args_quick / args_thorough, tiers.
"""

RS28_TU = ["reed-solomon_gf_2_8__of_reed-solomon_gf_2_8"]

PROPS = {
    "C14": {
        "level": "model_checking",
        "claim": "complete enumeration of a finite domain: every entry of every GF(2^4)/GF(2^8) table of both RS codecs (including the packed two-nibble table, the doubled exp range and the lazily generated codec-1 tables, also after a second initialisation) is compared with shift-and-reduce arithmetic; nothing is sampled",
        "technique": "exhaustive enumeration of a finite state space (all table indices) against a reference model",
        "rule": "complete enumeration of every index of every GF table (three table sets) against shift-and-reduce field arithmetic; states = field elements, transitions = table entries compared",
        "bounds": {"quick": "finite domain, complete", "thorough": "finite domain, complete"},
        "assumptions": ["reference arithmetic gfr_* (engine/ref.c) is the definition of GF(2)[x]/(x^4+x+1) and GF(2)[x]/(x^8+x^4+x^3+x^2+1)"],
        "runs": [
            {"name": "tables", "src": "h_tables.c", "variant": "plain", "exclude": RS28_TU},
        ],
    },
}
