"""registry.py — which harness runs decide which property (used by bin/check).

Each run: name, src (under harness/), variant (asan | trk | plain), optional lib_defs
(extra -D for the library build), exclude (library objects replaced by TU inclusion in the
harness), args / args_quick / args_thorough, tiers.
"""

RS28_TU = ["reed-solomon_gf_2_8__of_reed-solomon_gf_2_8"]
HOOK_COMMITS = ["744ff62"]

PROPS = {
    "C14": {
        "level": "model_checking",
        "claim": "complete enumeration of a finite domain: every entry of every GF(2^4)/GF(2^8) table of both RS codecs (including the packed two-nibble table, the doubled exp range and the lazily generated codec-1 tables, also after a second initialisation) is compared with shift-and-reduce arithmetic; 'generated at first use': every history of up to three first uses of codec 1 (of_rs_init, of_rs_new, encoder session, decoder session by either submission API, each needing the tables) runs in its own pristine process, all four generated tables compared after every step and the sessions must have worked (155 processes); nothing is sampled",
        "technique": "exhaustive enumeration of a finite state space (all table indices) against a reference model",
        "rule": "complete enumeration of every index of every GF table (three table sets) against shift-and-reduce field arithmetic, repeated after every step of every first-use history of length <= 3 over a 5-letter alphabet; states = field elements, transitions = table entries compared",
        "bounds": {"quick": "finite domain, complete", "thorough": "finite domain, complete"},
        "assumptions": ["reference arithmetic gfr_* (engine/ref.c) is the definition of GF(2)[x]/(x^4+x+1) and GF(2)[x]/(x^8+x^4+x^3+x^2+1)"],
        "runs": [
            {"name": "tables", "src": "h_tables.c", "variant": "plain", "exclude": RS28_TU},
        ],
    },
}


# ---------------------------------------------------------------------------- decoder explorer (h_codec.c)
DEC_ASSUME = [
    "decoders are data-oblivious GF-linear maps (DESIGN.md §2): the payload's identity part (source i = unit vector e_i, byte- resp. nibble-wise) reads the linear map off completely, a dense part is carried along as a cross-check",
    "received symbols are produced by the reference encoders (rs_ref / rfc5170_ref in engine/ref.c), not by the library",
    "protocol-conforming histories only (DESIGN.md §2): DWS* | SAS once, then optional terminal FINISH; queries after every step; release at every state",
    "state merging by a digest of the concrete library state + model state; guarded by replay-divergence and merge-audit checks (reported as MACHINERY, never as a verdict)",
]


def lowrate_run(variant, cb, dq, dt, nofinish):
    """depth-bounded all-orders exploration of low-rate, small-k, large-N1 LDPC blocks (n up to 26)"""
    a = ["--mode", "bfs", "--codecs", "lowrate", "--cb", cb, "--saslimit", "0"] + (["--nofinish", "1"] if nofinish else [])
    return {"name": "bfs-lowrate-%s%s" % (variant, "-nofinish" if nofinish else ""), "src": "h_codec.c", "variant": variant, "args": a,
            "args_quick": ["--maxdepth", str(dq)], "args_thorough": ["--maxdepth", str(dt)]}


def dec_runs(variant, cb, codecs, modes, randdev_q=0, randdev_t=1, extra=None):
    runs = []
    for m in modes:
        r = {"name": "%s-%s" % (m, variant), "src": "h_codec.c", "variant": variant,
             "args": ["--mode", m, "--cb", cb, "--codecs", codecs],
             "args_quick": ["--randdev", str(randdev_q)], "args_thorough": ["--randdev", str(randdev_t)]}
        if extra:
            r["args"] += extra
        runs.append(r)
    return runs


DEC_RULE = ("explicit-state BFS over operation histories of the real decoder API (DWS(e) for every ESI incl. duplicates, SAS(S) for every subset as first submission, terminal FINISH under scripted rand()), "
            "states deduplicated by a digest of the concrete library state; every history that reaches a new state is run a second time without any query between its operations (quiet history: only the final state is looked at, all oracles but the pointer-identity clause apply); plus complete 2^n received-subset enumeration and deviation-bounded / window / periodic loss families on large configurations; "
            "a state is non-trivial if it differs from every other state in concrete library state or model state")
DEC_BOUNDS = {
    "quick": ("BFS all orders + duplicates + both APIs (+FINISH): RS codec1/codec2(m=8,m=4) 1<=k<n<=6, LDPC k<=5,r in 3..5,n<=9,N1 in 3..min(r,5),seeds{1,2}; SAS subsets n<=9; "
              "lowrate grid: 8 LDPC blocks k 2..4, r 10..14, N1 5..7, all orders of every prefix up to 5-6 symbols; "
              "subsets mode: all 2^n received subsets for RS m=4 n<=12, m=8/codec1 n<=11, LDPC n<=13 (SAS+FIN, ascending DWS+FIN, descending DWS); "
              "large: RS (k,n) list up to 255 and LDPC (100,50),(40,20),(255,64),(1000,10),(700,6): all/first-k/last-k/k-1 symbols, single loss, one source replaced by one repair, cyclic windows, periodic losses, on strides; RS scenarios with a prelude (an earlier decoder session of the same codec, field and k with fewer repair symbols has rebuilt a lost source in the same process) for every k on a stride; low-rate even-N1 LDPC codes whose number of extra entries 2(n-k)-N1*k is 254 / 256 / 258 / 512 (thorough 65536): both orders, every single lost source, windows with and without the last repair symbol (a session that takes the last repair symbol for null although the reference matrix does not make it null is a violation); every n-k in 131..2100 (thorough ..4200) with k = 2(n-k), 8-byte symbols, three received windows of 1.05k..1.2k symbols (Gaussian elimination); dense source columns: k 2..4, n-k 3..24, N1 in {n-k, n-k-1, 9, 12, 15}, repairs first with one / two sources lost; symbol lengths of the large LDPC configurations cover every residue modulo 8; "
              "rows (C01, C03, C07): LDPC k 2..20, r 3..12, N1 3..5, seeds 1..3 (n<=44): every single equation, pair, and triple touching the first or last equation erased completely, everything else received, FINISH through both APIs; "
              "lens: 10 configurations x symbol lengths 1..40,63,64,65 x buffer alignments 0..7 (half of them above length 20) x callback none/buffer, plus the limits (k=1, k=n-1=254, n=255, m=4 n=15, LDPC n=5000); EVERY symbol length 41..2100 with configuration / alignment / callback rotating with the length; "
              "mid-range diagonal (large): every second k up to 252 for both RS codecs with a number of repair symbols derived from k (2 + 11k mod (253-k)) and the k = n-k diagonal: last-k window, middle windows of k and k-1 symbols, periodic loss, one / two sources replaced"),
    "thorough": ("BFS: RS n<=9, LDPC k<=7,r<=7,n<=12,N1<=6,5 seeds; SAS subsets n<=12; lowrate: 16 blocks up to n=26, prefixes up to 6-7 symbols; "
                 "subsets: RS m=4 all (k,n) n<=15, m=8/codec1 n<=14, LDPC n<=16 and the n=20 list; large: all strides 1, double losses / replacements, LDPC (1000,500),(3000,12); "
                 "rows: k up to 28, r up to 16, 12 seeds, every union of at most three equations; lens: all alignments at all lengths, LDPC n=50000 limits; rand() scripts: all r^r for r<=4, <=2 deviations for r<=5, <=1 otherwise; every symbol length 41..4200 x all 10 configurations; mid-range diagonal for every k"),
}

PROPS["C01"] = {
    "level": "model_checking", "rule": DEC_RULE, "bounds": DEC_BOUNDS, "assumptions": DEC_ASSUME,
    "claim": "every reachable state of the decoder explorer (all arrival orders, duplicates, both submission APIs, with/without FINISH, callback none/buffer) on the small grids, every received subset on the medium grids and the enumerated loss families on the large ones: each non-NULL source-table entry is byte-identical to the encoded symbol and completion implies all k entries; exhaustive within the stated bounds",
    "runs": dec_runs("trk", "nb", "rs,ldpc", ["bfs", "subsets", "large", "lens", "rows"], 1, 2) + [lowrate_run("trk", "nb", 5, 6, False)],
}
PROPS["C02"] = {
    "level": "model_checking", "rule": DEC_RULE, "bounds": DEC_BOUNDS, "assumptions": DEC_ASSUME,
    "claim": "for both RS codecs: in every explored state, >=k distinct symbols submitted <=> decoding complete with the original symbols (after the k-th DWS, or after FINISH for SAS), <k => never complete and FINISH returns FAILURE; complete for m=4 (all (k,n), all 2^n subsets in thorough) and for all subsets/orders up to the stated n for m=8 and codec 1; generator matrices are pinned to the Vandermonde reference by C06",
    "runs": dec_runs("trk", "nb", "rs", ["bfs", "subsets", "large", "lens"]),
}
PROPS["C03"] = {
    "level": "model_checking", "rule": DEC_RULE, "bounds": DEC_BOUNDS, "assumptions": DEC_ASSUME + ["H_ref comes from the independent RFC 5170 transcription; 'uniquely determined' <=> rank(H restricted to unknown columns) = number of unknown columns (staircase columns are independent)"],
    "claim": "FINISH from every reachable pre-finish state (all orders, both APIs) and for every received subset: complete-after-finish <=> rank condition on the reference matrix, for every explored rand() script (all r^r for r<=4, <=1/2 deviations otherwise)",
    "runs": dec_runs("trk", "nb", "ldpc", ["bfs", "subsets", "large", "lens", "rows"], 1, 2) + [lowrate_run("trk", "n", 5, 6, False)],
}
PROPS["C04"] = {
    "level": "model_checking", "rule": DEC_RULE, "bounds": DEC_BOUNDS, "assumptions": DEC_ASSUME + ["peeling closure computed on the independent RFC 5170 matrix"],
    "claim": "after every DWS step of every explored history (all orders with duplicates, every prefix) the set of available source symbols equals the source part of the peeling closure of the received set and completion <=> closure contains all sources",
    "runs": dec_runs("trk", "nb", "ldpc", ["bfs", "subsets", "large", "lens"]) + [lowrate_run("trk", "n", 6, 7, True)],
}
PROPS["C07"] = {
    "level": "model_checking", "rule": DEC_RULE, "bounds": DEC_BOUNDS,
    "assumptions": DEC_ASSUME + ["AddressSanitizer build (-O1) of library and harness; symbol buffers are exact-size heap blocks ending at the end of their malloc block, pointer tables have exactly n resp. k entries", "blind spot: reads before a buffer start that stay inside the alignment padding (offsets 1..7)"],
    "claim": "(the n-k sweep 131..2100 of the large mode is run on every third value under AddressSanitizer in the quick tier) the decoder explorations re-run under AddressSanitizer with exact-size application buffers and pristine-copy comparison after every call, plus symbol lengths 1..40,63,64,65 x alignments 0..7 and the parameter limits: no ASan report, no signal, no application buffer or table modified, in any explored state including release at every state",
    "runs": dec_runs("asan", "nbNz", "rs,ldpc", ["bfs", "lens", "large", "rows"]) + dec_runs("trk", "nb", "rs,ldpc", ["lens"]) + [lowrate_run("asan", "nb", 5, 6, False)],
    "budget": {"quick": 900, "thorough": 5400},
}
PROPS["C08"] = {
    "level": "model_checking", "rule": DEC_RULE, "bounds": DEC_BOUNDS,
    "assumptions": DEC_ASSUME + ["malloc/calloc/realloc/free wrapped at link time (exact live-block table)", "ownership rule (DESIGN.md §5): the application frees every source-table pointer it did not supply; everything else live after release is a leak"],
    "claim": "every explored state is rebuilt and released: live-block set after release + application epilogue equals the set before create, no free of a non-live block, no free of application memory; covers unconfigured, configured, every prefix of every order, after successful and failed FINISH, all callback policies",
    "runs": dec_runs("trk", "nbNz", "rs,ldpc", ["bfs", "subsets", "lens", "large"]) + [lowrate_run("trk", "nb", 5, 6, False)],
}
PROPS["C10"] = {
    "level": "model_checking", "rule": DEC_RULE, "bounds": DEC_BOUNDS, "assumptions": DEC_ASSUME,
    "claim": "on every transition of the explored state spaces (no callbacks): DWS/SAS return OK; FINISH returns OK iff complete afterwards and FAILURE iff not, never another status; complete <=> the source table is available with k entries; completion is monotone; a source symbol submitted while unknown is reported with the very pointer supplied; includes FINISH from already-complete states",
    "runs": dec_runs("trk", "nr", "rs,ldpc", ["bfs", "subsets", "large", "lens"], 1, 1) + [lowrate_run("trk", "n", 5, 6, False)],
}
PROPS["C11"] = {
    "level": "model_checking", "rule": DEC_RULE, "bounds": DEC_BOUNDS, "assumptions": DEC_ASSUME + ["callback policies are functions of the ESI fixed per exploration (buffer for all, NULL for all, NULL for every set Z with |Z|<=1 (quick) / <=2 (thorough), all 2^k sets for small k)"],
    "claim": "for every explored state and callback policy: exactly one call per decoded (not received) source symbol with ESI<k and size = symbol length, never for a received symbol; the decoded value is in the returned buffer, or in a library block when NULL was returned, and that buffer is what the source table reports; statuses as in C10",
    "runs": dec_runs("trk", "bNz", "rs,ldpc", ["bfs", "lens"], 1, 1) + dec_runs("trk", "b", "rs,ldpc", ["subsets"]) + [lowrate_run("trk", "bN", 5, 6, False)],
}

PROPS["C19"] = {
    "level": "model_checking",
    "claim": "explicit-state model checking of the one-variable generator: all 2^31-2 states of the cycle are visited (256 arcs joined by modular-exponentiation jump-ahead, closure checked); in each state the successor equals 16807*s mod (2^31-1) (64-bit arithmetic) and, for every maxv of the tier's list, the returned value equals the RFC expression, lies in 0..maxv-1 and equals the exact floor whenever s'*maxv < 2^53; seeding accepts exactly 1..2^31-2 on the enumerated windows; the 10000th state after seed 1 is 1043618065",
    "technique": "exhaustive explicit-state enumeration of the generator's full cycle (2^31-2 states) against the reference transition function",
    "rule": "states = values of of_seed visited (full cycle); transitions = library calls compared (states x maxv list); every state is distinct by construction",
    "bounds": {"quick": "all 2^31-2 states x 19 maxv values {1,2,3,5,255,256,1000,65535,65536,2^20, and nine values above 2^22 up to 12750000}; every maxv in 1..2^20 x a band of 4099 states (first and last 2048 of the cycle from seed 1, 2^31-2, 2^30, 2^30+1); every maxv in 1..12750000 x the 8 critical states whose product s'*maxv is within 4 of a multiple of 2^31-1", "thorough": "all states x 120 maxv values (all <=64, 2^e and 2^e+-1 up to 2^24, 150000, 12749999, 12750000); every maxv in 1..2^22 x the band"},
    "assumptions": ["'all maxv x all states' (2.7e16) is out of reach: two explicit products instead (all states x a maxv list, all maxv the library can pass x a band of states)", "reference transition: 64-bit (s*16807) % (2^31-1); exact floor by 128-bit integer arithmetic"],
    "runs": [{"name": "prng", "src": "h_prng.c", "variant": "plain"}],
}

PROPS["C20"] = {
    "level": "model_checking",
    "claim": "complete enumeration of the (T,B) square and the (L,E,B) cube up to the tier's bound plus a boundary cross product up to 2^32-1, every result compared with integer-only RFC 5052 arithmetic (N, A_small, A_large<=B, I, I*A_large+(N-I)*A_small=T)",
    "technique": "exhaustive enumeration of a bounded input space against a reference model",
    "rule": "every (L,E,B) triple is one case; states = transitions = triples evaluated on the real function",
    "bounds": {"quick": "T,B in 1..1500 (E=1); L in 1..256 x E in 1..32 x B in 1..32; boundary grid L in {2^k-1,2^k,2^k+1} x E in {1,2,3,1024,2^31,2^32-1} x B in {1,2,3,255,50000,2^31-1,2^31,2^32-1}; every T in 1..2^19 x 40 values of B (1..2^24+1) with E=1 and, for a third of them, E in {2,1024,1500} at the three lengths around T*E; near-exact divisions T = N*A + r (r in {0,1,2,N-2,N-1}) for N in 1..4096 x 50 values of A with B in {A-1,A,A+1}, E in {1,1316}",
               "thorough": "T,B in 1..4096; L in 1..512 x E,B in 1..64; same boundary grid; every T in 1..2^22 x the 40 values of B; near-exact divisions for N up to 20000"},
    "assumptions": ["beyond the enumerated squares/cubes only the boundary grid is visited"],
    "runs": [{"name": "block", "src": "h_block.c", "variant": "plain", "no_lib": True}],
}

PROPS["C13"] = {
    "level": "model_checking",
    "claim": "complete enumeration of size 0..80 and 256..272 (thorough: 0..272 and 1024..1040) x destination alignment 0..7 x source alignment 0..7 x operand count 0..20 x all 256 (16) field constants x 2 content patterns (plus 16 rotations carrying every byte value at every position class) for the seven kernels; plus long symbols (96..70001 bytes: 2^e-1, 2^e, 2^e+1 for e = 9..16 and values between; thorough up to 2^20) x 8 alignment pairs x operand counts {0..5,7,8,9,15,16,17,20} x 7 constants, and operand counts 21..40, 63..65, 127..129, 255..257, 300 on 10 short sizes; result compared with the byte-wise definition (content patterns not periodic in the offset); reads and writes beyond size trapped by AddressSanitizer (operands end at the end of their heap block) and by canaries",
    "technique": "exhaustive enumeration of a bounded input space (size x alignment x operand count x constant) on the real kernels against a byte-wise reference",
    "rule": "one case = (kernel, size, dst alignment, src alignment, operand count, constant, pattern); states = sizes, transitions = kernel calls compared",
    "bounds": {"quick": "sizes 0..80,256..272; counts 0..20; alignments 8x8; constants all; 43 long sizes up to 70001 and 30 large operand counts up to 300 on reduced alignment/constant sets; contiguous sweep: EVERY size 273..2100 x 3 alignment pairs x operand counts {1,2,3,8,17} x 3 constants", "thorough": "sizes 0..272,1024..1040 (reduced constant/alignment sets above 300); 59 long sizes up to 2^20; contiguous sweep up to 9000"},
    "assumptions": ["reference multiplication gfr_mul (engine/ref.c); table correctness itself is C14", "reads before the start of an operand inside its alignment padding are not observable"],
    "runs": [{"name": "kernel-asan", "src": "h_kernel.c", "variant": "asan", "exclude": RS28_TU},
             {"name": "kernel-plain", "src": "h_kernel.c", "variant": "plain", "exclude": RS28_TU}],
}

# ---------------------------------------------------------------------------- encoder / code construction (h_enc.c)
ENC_ASSUME = [
    "reference generator: systematic form of the Vandermonde matrix on points 0,1,x,x^2,.. over GF(2^m) with polynomials 0x13 / 0x11d (engine/ref.c rsr_generator), MDS by the Vandermonde argument",
    "rfc5170_ref is an independent transcription of RFC 5170 §5.7/§6.2 on a dense ESI-indexed bit matrix (anchored by the 10000th PRNG output); a misreading of the RFC shared with the library would go unnoticed",
    "identity payload reads the encoder's linear map off completely (data-obliviousness, DESIGN.md §2); a dense part is carried along",
]
PROPS["C05"] = {
    "level": "model_checking", "assumptions": ENC_ASSUME,
    "claim": "for every (k,r,N1,seed) of the grid and every pollution prefix (6 histories of other sessions, incl. a rejected configuration, an ML-decoding session and a displaced PRNG state): the parity-check matrix walked by rows and by columns in an encoder and in a decoder session equals the RFC 5170 reference entry by entry, and the encoder's codeword satisfies every reference equation (behavioural H); the interleaved case is C12. Histories: every sequence of 6 (thorough 7) LDPC sessions over 4 (5) codes with n = 9, 12, 4097, 4500 (400), each sequence in its own process, encoder/decoder alternating, with and without overlap of consecutive sessions: every matrix equals the reference of its own parameters; and every sequence of 4 (5) steps over 3 measured LDPC codes and 8 other activities (Reed-Solomon 2^8 / 2^m and 2D sessions, two rejected LDPC configurations, an ML decoding that displaces the PRNG, a session left open)",
    "technique": "exhaustive enumeration of a parameter grid x history prefixes on the real code against an independent RFC 5170 reference model",
    "rule": "point = (k,r,N1,seed,prefix); states = points, transitions = build_repair_symbol calls; all points distinct",
    "bounds": {"quick": "k in {1..12,16,20,32}+3 large points, r in {3..12,16,32}, N1 3..min(r,10), seeds {1,2,2^31-2}, 6 prefixes; mid-range sweep: EVERY k in 13..800 with r in {3 + 7k mod 61, k/2 + k mod 7, k (a third), 3 + k mod 9 with N1 = r (a third)}, N1 and seed (LCG of k, mid-range 31-bit values) derived from k; every N1 in 11..40 on three shapes; k=10000/20000 blocks (structural comparison) with 6 seeds; lengths 1..40 x alignments 1..7 on two small codes", "thorough": "k up to 1000, r up to 500, 7 seeds, 6 prefixes (2 for the largest); mid-range sweep for every k up to 3000; 117 further seeds on every shape k<=12, r<=12, N1<=7 (prefix rotating); k=10000/20000 blocks with 40 seeds"},
    "runs": [{"name": "ldpc-trk", "src": "h_enc.c", "variant": "trk", "args": ["--mode", "ldpc"]},
             {"name": "hist-trk", "src": "h_enc.c", "variant": "trk", "args": ["--mode", "hist"]}],
}
PROPS["C06"] = {
    "level": "model_checking", "assumptions": ENC_ASSUME,
    "claim": "RS: for m=4 all 105 (k,n), for m=8 and codec 1 the k list with n in {k+1,255}, all n<=12 (thorough: all k, n<=24), and EVERY k in 1..252 with a mid-range number of repair symbols (2 + 11k mod (253-k)) plus the k = n-k diagonal; sessions with equal (k, n-k) and different field / codec back to back in one process (m=4, m=8, codec 1 in four orders, all (k, n) up to n = 15); every symbol length 41..2100 (thorough ..4200) on small codes: every repair ESI on the identity+dense payload equals the reference generator row (so codec 1 and codec 2/m=8 are byte-identical), enc_matrix of encoder and decoder sessions equals the reference; LDPC: the C05 grid, every reference equation sums to zero over the produced codeword; both slot modes, source buffers compared with pristine copies, NULL slot becomes a fresh library block with the same value; symbol lengths 1..40,64,65,1024 on a reduced list; repeated under AddressSanitizer",
    "technique": "exhaustive enumeration of parameter grids x repair ESIs x slot modes on the real encoders against reference models",
    "rule": "point = (codec,m,k,n,len) or (k,r,N1,seed,prefix); transitions = repair symbols built and compared",
    "bounds": {"quick": "see claim (quick lists)", "thorough": "see claim (thorough lists)"},
    "runs": [{"name": "rs-trk", "src": "h_enc.c", "variant": "trk", "args": ["--mode", "rs"]},
             {"name": "ldpc-trk", "src": "h_enc.c", "variant": "trk", "args": ["--mode", "ldpc"]},
             {"name": "rs-asan", "src": "h_enc.c", "variant": "asan", "args": ["--mode", "rs"]},
             {"name": "ldpc-asan", "src": "h_enc.c", "variant": "asan", "args": ["--mode", "ldpc"], "tiers": ("thorough",)}],
}
PROPS["C15"] = {
    "level": "model_checking", "assumptions": ENC_ASSUME + ["when the claim is true, every source column of the reference matrix has even weight (summing all equations cancels the staircase), so zero on the identity payload implies zero for all data by linearity"],
    "claim": "for every (k,r,N1,seed) of the grid: encoder and decoder sessions give the same IS_LAST_SYMBOL_NULL answer; whenever it is true every source column of the RFC matrix has even weight and the encoder's last repair symbol on the identity+dense payload is all zero; the answer is asked again (twice) after encoding; session histories (h_enc hist mode): in every sequence of sessions and other activities each LDPC session gives the answer a pristine process gives for the same code and role",
    "technique": "exhaustive enumeration of a parameter grid on the real code against the RFC 5170 reference model",
    "rule": "point = (k,r,N1,seed); non-trivial points are those where the claim is true (counted as null_last_claims)",
    "bounds": {"quick": "k 1..12, r 3..10, N1 3..min(r,10), seeds 1..5, plus high-rate points; even N1 with 254..258, 510..514, 768, 1024, 65534 / 65536 / 65538 extra entries; mid-range sweep: every k in 13..500 x 2-3 (r, N1, seed) derived from k (even and odd N1, k = r diagonal), every N1 in 11..40 on two shapes", "thorough": "k 1..32, r 3..16, seeds 1..50,16807,2^31-2, plus high-rate points up to k=400; mid-range sweep up to k=1500"},
    "runs": [{"name": "ldpc-trk", "src": "h_enc.c", "variant": "trk", "args": ["--mode", "ldpc"]},
             {"name": "hist-trk", "src": "h_enc.c", "variant": "trk", "args": ["--mode", "hist"]}],
}
PROPS["C02"]["runs"] += [{"name": "rsgen-trk", "src": "h_enc.c", "variant": "trk", "args": ["--mode", "rs"]}]
for _p in ("C01", "C02", "C10"):
    PROPS[_p]["runs"] += [{"name": "enc-then-dec-one-session-trk", "src": "h_enc.c", "variant": "trk", "args": ["--mode", "both"]}]
PROPS["C03"]["runs"] += [{"name": "enc-then-dec-one-session-trk", "src": "h_enc.c", "variant": "trk", "args": ["--mode", "both"]}]
PROPS["C08"]["runs"] += [{"name": "enc-then-dec-one-session-trk", "src": "h_enc.c", "variant": "trk", "args": ["--mode", "both"]},
                         {"name": "enc-rs-trk", "src": "h_enc.c", "variant": "trk", "args": ["--mode", "rs"]},
                         {"name": "enc-ldpc-trk", "src": "h_enc.c", "variant": "trk", "args": ["--mode", "ldpc"]}]
PROPS["C07"]["runs"] += [{"name": "enc-then-dec-one-session-asan", "src": "h_enc.c", "variant": "asan", "args": ["--mode", "both"]},
                         {"name": "enc-rs-asan", "src": "h_enc.c", "variant": "asan", "args": ["--mode", "rs"]},
                         {"name": "enc-ldpc-asan", "src": "h_enc.c", "variant": "asan", "args": ["--mode", "ldpc"]}]


PROPS["C17"] = {
    "level": "model_checking",
    "claim": "explicit-state BFS over sequences of the exported sparse-matrix operations on two real matrices (insert, find+delete, composite 'walk to entry Y, find X, delete Y by pointer, insert Z' in both orders for every triple of cells (X = Z with Y in the same row / column on matrices above 6 cells) executed without intermediate observation, clear, copy, copyrows/copycols with every index vector, the _opt variants into an empty destination, copy_filled_matrix with every order-preserving map, sparse->dense->sparse, free+reallocate) against a set model; after every step find <=> membership, idempotent insert, every row/column traversal lists exactly the members in increasing order forwards and backwards; run under AddressSanitizer and under the allocation tracker (freeing releases everything); entry blocks of 4 (hook) so that block exhaustion and recycling are reached. Large matrices (real block size 1024): complete enumeration of 13 shapes (64x64 .. 1030x1030, 1x70000, 70000x1, 2x66000, 66000x2) x 6 fill patterns x 4 insertion orders, each followed by one fixed script of every operation (delete a third, re-insert, copy, copy over a used matrix, copyrows/copycols and the _opt variants with reversed and repeating index vectors, copy_filled_matrix into a larger matrix, sparse->dense with a reused dense matrix ->sparse into a used matrix, 1500 (thorough 6000) insert/delete cycles, two clears and refills) with the full structure compared with the set model after every step",
    "rule": "state = (entry sets of A and B, free-list length, block count) reached by an operation history; closure complete for the small dimension pairs, depth/state-capped (reported) for the larger ones",
    "bounds": {"quick": "dimension pairs 1x2/1x2, 2x1/2x2, 2x2/2x2, 2x2/2x3, 1x3/2x3, 3x1/3x2, 1x4/1x4 to closure; 2x3/3x3 to depth 5; large: 13 shapes x 6 patterns x 4 orders (2 orders on shapes above 70000 cells); the same script on EVERY dimension 5..220 (thorough ..500) as a column count and every third as a row count, pattern and order rotating", "thorough": "large: all 312 scripts, also under ASan; small: same to closure; 2x3/2x3 depth 10, 2x3/3x3 depth 7, 3x3/3x3 depth 6, 2x4/3x4 depth 6, 3x4/4x4 depth 5 or 10^6 states"},
    "assumptions": ["library built with -DOPENFEC_VERIF -DOPENFEC_VERIF_SPARSE_BLOCK=4 (hook 744ff62): block size 4 instead of 1024", "_opt copies are only exercised into an empty destination (their internal clear is commented out upstream, so a non-empty destination is not an in-range use)"],
    "runs": [{"name": "sparse-asan", "src": "h_sparse.c", "variant": "asan", "lib_defs": ["-DOPENFEC_VERIF_SPARSE_BLOCK=4"]},
             {"name": "sparse-trk", "src": "h_sparse.c", "variant": "trk", "lib_defs": ["-DOPENFEC_VERIF_SPARSE_BLOCK=4"]},
             {"name": "sparse-big-trk", "src": "h_sparse_big.c", "variant": "trk"},
             {"name": "sparse-big-asan", "src": "h_sparse_big.c", "variant": "asan", "tiers": ["thorough"]}],
    "budget": {"quick": 600, "thorough": 3600},
}

PROPS["C18"] = {
    "level": "model_checking",
    "claim": "dense ops: depth-bounded explicit-state BFS over sequences of set/flip/clear/copy/copyrows(all index vectors)/copycols(5 column maps)/xor_rows on two real matrices for column counts 1,31,32,33,64,65 against a byte-per-bit model, every cell / row weight / column weight / emptiness / density / row_weight_ignore_first(multiples of 32) / hweight_array compared after every step, under AddressSanitizer; popcount helpers: all 2^32 arguments of of_hweight32, _table, _naive, all 256 of of_hweight8_table, boundary patterns for of_popcount_3 / of_hweight_array; solver: every p x q binary system for q<=p<=4, (5,<=4), (6,<=3) and every 4x4 block embedded at both word boundaries of a 66-column identity-completed system, with and without NULL (zero) right-hand sides, symbol lengths 1,8,9: OK <=> full column rank and the variables equal the known solution (right-hand sides given as symbols, with null sums given as NULL for pairwise different variables, and with null sums given as NULL for all-equal variables so that every even-weight equation has no constant term). Large: 12 shapes up to 1000 rows / 4097 columns x 6 content patterns, one script of every dense operation each (set, flip, set 0, xor_rows across the 255/256 row border, copy / copyrows / copycols into used and larger matrices, clear) with all cells, weights, emptiness, density, ignore_first compared after every step; 12 structured system families (triangular, staircase, hashed, duplicate / zero column ...) x 12 sizes q = 9..130 x (p = q, q+3) x symbol lengths 1..1000 x 3 right-hand-side modes; EVERY number of unknowns 5..200 (thorough ..400) on four families x (p = q, q+3); the dense-operation script on EVERY column count 1..300 (thorough ..700) with a row count derived from it (and, every fifth, as a row count)",
    "rule": "ops: state = (bit contents of both matrices incl. padding words) reached by an operation history; popcnt: every 32-bit word; solver: every binary matrix of the listed shapes",
    "bounds": {"quick": "ops depth 4; popcnt complete; solver: all shapes, lengths rotated for the two largest shapes, every 4th embedded block", "thorough": "ops depth 5 (ASan) and 6 (plain, 2e6-state cap); solver: all lengths x all matrices x all embedded blocks"},
    "assumptions": ["of_mod2dense_row_weight_ignore_first only for multiples of 32 (undefined otherwise)", "rows of a copycols destination beyond the source's row count are not defined by the operation and are resynchronised"],
    "runs": [{"name": "ops-asan", "src": "h_dense.c", "variant": "asan", "args": ["--mode", "ops"], "args_quick": ["--depth", "4"], "args_thorough": ["--depth", "5"]},
             {"name": "ops-plain", "src": "h_dense.c", "variant": "plain", "args": ["--mode", "ops"], "args_thorough": ["--depth", "6"], "tiers": ("thorough",)},
             {"name": "popcnt", "src": "h_dense.c", "variant": "plain", "args": ["--mode", "popcnt"]},
             {"name": "solver-asan", "src": "h_dense.c", "variant": "asan", "args": ["--mode", "solver"]},
             {"name": "big-asan", "src": "h_dense.c", "variant": "asan", "args": ["--mode", "big"]}],
    "budget": {"quick": 600, "thorough": 3600},
}

PROPS["C16"] = {
    "level": "model_checking",
    "claim": "every (k,r) with 0<=k<=17, 0<=r<=26 is offered to the codec (each in its own process); for every accepted pair the parity-check matrix is shown to be a d x l product single-parity code (each check has its own repair symbol, each source symbol in exactly two checks, checks 2-colourable into two classes, every cross-class pair shares exactly one source, d*l=k, d+l=r) and the encoder output satisfies every check in both slot modes; the decoder is explored like the other codecs (BFS all orders for n<=9/12, all 2^n received subsets for n<=16/24 via SAS+FINISH, ascending DWS+FINISH and descending DWS): never a wrong symbol, complete after FINISH <=> rank condition on the (verified) matrix, FINISH status consistent, release at every state without leak, and the same under AddressSanitizer",
    "rule": DEC_RULE, "bounds": {"quick": "structure: all (k,r) in 0..17 x 0..26; BFS n<=9; subsets n<=16", "thorough": "BFS n<=12; subsets all accepted pairs up to n<=24 (2^24 subsets for (16,8))"},
    "assumptions": DEC_ASSUME + ["decoder completeness is judged against the library's own matrix after its product structure has been verified"],
    "runs": [{"name": "2d-structure-trk", "src": "h_enc.c", "variant": "trk", "args": ["--mode", "2d"]},
             {"name": "2d-structure-asan", "src": "h_enc.c", "variant": "asan", "args": ["--mode", "2d"]},
             {"name": "2d-bfs-trk", "src": "h_codec.c", "variant": "trk", "args": ["--mode", "bfs", "--codecs", "2d", "--cb", "n"]},
             {"name": "2d-bfs-asan", "src": "h_codec.c", "variant": "asan", "args": ["--mode", "bfs", "--codecs", "2d", "--cb", "n"]},
             {"name": "2d-subsets-trk", "src": "h_codec.c", "variant": "trk", "args": ["--mode", "subsets", "--codecs", "2d"]},
             {"name": "2d-lens-trk", "src": "h_codec.c", "variant": "trk", "args": ["--mode", "lens", "--codecs", "2d", "--cb", "n"]},
             {"name": "2d-lens-asan", "src": "h_codec.c", "variant": "asan", "args": ["--mode", "lens", "--codecs", "2d", "--cb", "n"], "tiers": ("thorough",)}],
    "budget": {"quick": 600, "thorough": 3600},
}

PROPS["C09"] = {
    "level": "model_checking",
    "claim": "(functional cycle = encode, decode the first k symbols, decode with source 0 lost in ascending and in descending order; LDPC tuples whose number of extra entries 2(n-k)-N1*k is 2^8, 2^9, 2^16 are in the grid) cross product (not pairwise) of k, n-k in {0,1,2,3,limit-1,limit,limit+1,2^31-1,2^31,2^32-1 (and the value wrapping n to 0)}, length in {0,1,2,7,8,9,1024,65536,2^32-1}, m in {0,1,3,4,5,7,8,9,16,65535}, N1 in {0..4,r-1,r,r+1,255}, seed in {-2^31,-1,0,1,2,2^31-2,2^31-1}, three roles, codecs 1,2,3: each tuple is one contained execution (crash / hang reported with the tuple); inside the advertised limits => OK followed by a functional encode/decode cycle (RS repair symbols compared with the reference generator), outside => error status; plus every single-argument corruption named by the property (NULL session, ESI out of range, wrong role) of every encoding/decoding/query entry point on 8 sessions x 3 roles: error status, sources untouched, session still completes a normal encode/decode",
    "technique": "exhaustive enumeration of a boundary-value cross product and of all single-argument corruptions on the real API, each execution contained in a supervised worker",
    "rule": "one tuple / one (session, corruption) pair per execution; all distinct",
    "bounds": {"quick": "grid as in the claim (accepted shapes with n>10000 only for two lengths, one role), trk variant; corruptions under ASan", "thorough": "full grid, also under ASan"},
    "assumptions": ["functional cycle skipped when n*length > 64 MiB or length > 65536 (acceptance and release still checked)", "known finding: codec 2 accepts n > 2^m-1 (see known_findings.txt)"],
    "runs": [{"name": "grid-trk", "src": "h_param.c", "variant": "trk", "args": ["--mode", "grid"]},
             {"name": "args-asan", "src": "h_param.c", "variant": "asan", "args": ["--mode", "args"]},
             {"name": "args-trk", "src": "h_param.c", "variant": "trk", "args": ["--mode", "args"]},
             {"name": "grid-asan", "src": "h_param.c", "variant": "asan", "args": ["--mode", "grid"], "tiers": ("thorough",)}],
    "budget": {"quick": 600, "thorough": 3600},
}

PROPS["C12"] = {
    "level": "model_checking",
    "claim": "a catalogue of 73 session scripts: 25 hand-written (RS-2^8 encoder / matrix decoder, RS-2^m m=4 SAS decoder, m=8 encoder, LDPC encoders and decoders incl. one ending in ML decoding that consumes rand(), even-N1 decoders rebuilding through the null last symbol with short and long symbols, late control-parameter queries, callbacks with and without repair callback, a 297-deep peeling cascade, 300-symbol equations, two rejected LDPC configurations, 2D encoder, verbose sessions) and 48 generated (RS-2^8 / RS-2^m m=8 / m=4 / LDPC x four shapes sharing k or n-k x encoder / decoder / one session in both roles): for every unordered pair (a script with itself included, then fed from the same application buffers) ALL interleavings of the two call sequences; for every triple and quadruple of the hand-written ones all interleavings with at most 3 (quick) / 5 (thorough) context switches; every combination in its own process; rand() is a global-counter generator; every session's observation trace (statuses, completion, control answers, bytes of built and decoded symbols) must equal the trace of the same script alone in a pristine forked process",
    "technique": "exhaustive enumeration of all interleavings (pairs) / context-switch-bounded interleavings (triples) of session call sequences on the real library, compared with stand-alone runs",
    "rule": "one execution = one interleaving schedule; states = script combinations, transitions = API calls executed",
    "bounds": {"quick": "78 pairs x all interleavings (up to C(15,7)); 352 triples x <=3 switches", "thorough": "78 pairs; 364 triples x <=5 switches; also under ASan"},
    "assumptions": ["scripts are fixed (listed in harness/h_indep.c); stdout/stderr text is not an observation", "leftover global state of earlier executions in the same worker is itself part of the 'other sessions' history"],
    "runs": [{"name": "indep-trk", "src": "h_indep.c", "variant": "trk"},
             {"name": "indep-asan", "src": "h_indep.c", "variant": "asan", "tiers": ("thorough",)}],
}
